/-
  C14 lemmas, part 2: MergeUp (order-free level step, closed form, the four clauses).
  Statements with a prime are re-exported by OrbProofs/C14.lean.
-/
import Orb.TileCover
import OrbProofs.C13Lemmas

namespace Orb.TileCover
open Orb Orb.Tile

namespace TMap

theorem get_set (m : TMap) (t t' : Tile) (b : Bool) :
    (m.set t b).get t' = if t' = t then b else m.get t' := by
  induction m with
  | nil => 
    simp only [set, get]
    by_cases h : t = t' <;> simp [h, eq_comm]
  | cons p r ih =>
    obtain ⟨k, v⟩ := p
    simp only [set]
    by_cases hk : k = t
    · subst hk
      simp only [if_true, get]
      by_cases h : k = t'
      · simp [h]
      · have : ¬ t' = k := fun e => h e.symm
        simp [h, this]
    · simp only [if_neg hk, get, ih]
      by_cases h : k = t'
      · subst h; simp [hk]
      · simp [h]

theorem mem_keys_of_get {m : TMap} {t : Tile} (h : m.get t = true) : t ∈ m.keys := by
  induction m with
  | nil => simp [get] at h
  | cons p r ih =>
    obtain ⟨k, v⟩ := p
    simp only [get] at h
    simp only [keys, List.map_cons, List.mem_cons]
    by_cases hk : k = t
    · exact Or.inl hk.symm
    · rw [if_neg hk] at h
      exact Or.inr (ih h)

theorem mem_keys_set (m : TMap) (t t' : Tile) (b : Bool) :
    t' ∈ (m.set t b).keys ↔ t' ∈ m.keys ∨ t' = t := by
  induction m with
  | nil => simp [set, keys]
  | cons p r ih =>
    obtain ⟨k, v⟩ := p
    simp only [set]
    by_cases hk : k = t
    · subst hk
      simp only [if_true, keys, List.map_cons, List.mem_cons]
      constructor
      · intro h; exact Or.inl h
      · rintro (h | h)
        · exact h
        · exact Or.inl h
    · simp only [if_neg hk]
      simp only [keys, List.map_cons, List.mem_cons] at ih ⊢
      rw [ih]
      simp only [or_assoc]

theorem length_keys (m : TMap) : m.keys.length = m.len := by simp [keys, len]

theorem get_map_true (l : List Tile) (t : Tile) :
    TMap.get (l.map fun t => (t, true)) t = true ↔ t ∈ l := by
  induction l with
  | nil => simp [get]
  | cons a l ih =>
    simp only [List.map_cons, get, List.mem_cons]
    by_cases h : a = t
    · simp [h]
    · have : ¬ t = a := fun e => h e.symm
      simp [h, this, ih]

end TMap

/-- four distinct members force length ≥ 4 -/
theorem four_le_length {α : Type} [DecidableEq α] (l : List α) (a b c d : α) (ha : a ∈ l) (hb : b ∈ l) (hc : c ∈ l) (hd : d ∈ l)
    (hab : a ≠ b) (hac : a ≠ c) (had : a ≠ d) (hbc : b ≠ c) (hbd : b ≠ d) (hcd : c ≠ d) : 4 ≤ l.length := by
  have h1 := List.length_erase_of_mem ha
  have hb1 : b ∈ l.erase a := (List.mem_erase_of_ne (Ne.symm hab)).2 hb
  have hc1 : c ∈ l.erase a := (List.mem_erase_of_ne (Ne.symm hac)).2 hc
  have hd1 : d ∈ l.erase a := (List.mem_erase_of_ne (Ne.symm had)).2 hd
  have h2 := List.length_erase_of_mem hb1
  have hc2 : c ∈ (l.erase a).erase b := (List.mem_erase_of_ne (Ne.symm hbc)).2 hc1
  have hd2 : d ∈ (l.erase a).erase b := (List.mem_erase_of_ne (Ne.symm hbd)).2 hd1
  have h3 := List.length_erase_of_mem hc2
  have hd3 : d ∈ ((l.erase a).erase b).erase c := (List.mem_erase_of_ne (Ne.symm hcd)).2 hd2
  have h4 := List.length_pos_of_mem hd3
  have := List.length_pos_of_mem ha
  have := List.length_pos_of_mem hb1
  have := List.length_pos_of_mem hc2
  omega


/-! ### siblings -/

theorem parent_V {t : Tile} (ht : V t) (hz : 0 < t.z) :
    V (parent t) ∧ (parent t).z + 1 = t.z ∧ (parent t).z < 30 := by
  have h30 := ht.2.2
  rw [parent_eq t hz (by omega)]
  refine ⟨V_parent t ht hz, ?_, ?_⟩ <;> simp only <;> omega

theorem mem_siblings_iff {t : Tile} (ht : V t) (hz : 0 < t.z) (s : Tile) :
    s ∈ siblings t ↔ (V s ∧ s.z = t.z ∧ parent s = parent t) := by
  obtain ⟨hp, hpz, hp30⟩ := parent_V ht hz
  unfold siblings
  constructor
  · intro h
    obtain ⟨h1, h2, h3⟩ := children_valid_parent' _ hp hp30 s h
    exact ⟨h1, by omega, h3⟩
  · rintro ⟨h1, h2, h3⟩
    exact children_complete' _ s hp hp30 h1 (by omega) h3

theorem self_mem_siblings {t : Tile} (ht : V t) (hz : 0 < t.z) : t ∈ siblings t :=
  (mem_siblings_iff ht hz t).2 ⟨ht, rfl, rfl⟩

theorem siblings_eq_of_mem {t s : Tile} (ht : V t) (hz : 0 < t.z) (hs : s ∈ siblings t) :
    siblings s = siblings t := by
  have := ((mem_siblings_iff ht hz s).1 hs).2.2
  unfold siblings
  rw [this]

theorem isAncestor_parent {c : Tile} (hz : 0 < c.z) (h : c.z < 2 ^ 32) : IsAncestor (parent c) c := by
  rw [isAncestor_iff]
  refine ⟨1, hz, ?_⟩
  rw [parent_eq c hz h]
  simp [ancestorAt]

/-! ### Full -/

theorem full_at_zoom (m : TMap) (zoom : Nat) (t : Tile) (h : t.z = zoom) :
    Full m zoom t ↔ m.get t = true := by
  constructor
  · intro hf; exact hf t h (isAncestor_refl t)
  · intro hg s hs ha
    obtain ⟨_, e⟩ := ha
    have : s.z - t.z = 0 := by omega
    rw [this, ancestorAt_zero] at e
    rw [← e]; exact hg

theorem full_mono {m : TMap} {zoom : Nat} {a b : Tile} (h : IsAncestor a b) (hf : Full m zoom a) :
    Full m zoom b :=
  fun s hs hb => hf s hs (isAncestor_trans h hb)

theorem full_V {m : TMap} {zoom : Nat} (hm : ∀ t, m.get t = true → V t ∧ t.z = zoom) {t : Tile}
    (hf : Full m zoom t) (hz : t.z ≤ zoom) : V t ∧ zoom ≤ 30 := by
  obtain ⟨k, rfl⟩ : ∃ k, zoom = t.z + k := ⟨zoom - t.z, by omega⟩
  have hd : IsAncestor t ⟨t.x * 2 ^ k, t.y * 2 ^ k, t.z + k⟩ := by
    refine ⟨hz, ?_⟩
    simp only [ancestorAt, Nat.add_sub_cancel_left]
    apply tile_ext <;> simp only
    · rw [Nat.mul_div_cancel _ (Nat.two_pow_pos _)]
    · rw [Nat.mul_div_cancel _ (Nat.two_pow_pos _)]
    · omega
  obtain ⟨⟨hx, hy, h30⟩, _⟩ := hm _ (hf _ rfl hd)
  simp only at hx hy h30
  rw [Nat.pow_add] at hx hy
  exact ⟨⟨Nat.lt_of_mul_lt_mul_right hx, Nat.lt_of_mul_lt_mul_right hy, by omega⟩, h30⟩

theorem full_children {m : TMap} {zoom : Nat} (h30 : zoom ≤ 30) {p : Tile} (hp : V p) (hz : p.z < zoom) :
    Full m zoom p ↔ ∀ c ∈ children p, Full m zoom c := by
  constructor
  · intro hf c hc
    obtain ⟨h1, h2, h3⟩ := children_valid_parent' p hp (by omega) c hc
    have := isAncestor_parent (c := c) (by omega) (by omega)
    rw [h3] at this
    exact full_mono this hf
  · intro h s hs ha
    obtain ⟨hle, e⟩ := ha
    have hc1 : ancestorAt (ancestorAt s (zoom - p.z - 1)) 1 = p := by
      have h1 : ancestorAt s (zoom - p.z - 1 + 1) = ancestorAt s (s.z - p.z) := by
        congr 1; omega
      rw [ancestorAt_add, h1]
      exact e.symm
    generalize hc : ancestorAt s (zoom - p.z - 1) = c at hc1
    have hcz : c.z = p.z + 1 := by
      rw [← hc]; simp only [ancestorAt]; omega
    have hpar : parent c = p := by
      rw [parent_eq c (by omega) (by omega), ← hc1]
      simp [ancestorAt]
    have hx : c.x / 2 = p.x := by rw [← hc1]; simp [ancestorAt]
    have hy : c.y / 2 = p.y := by rw [← hc1]; simp [ancestorAt]
    have hV : V c := by
      obtain ⟨px, py, pz⟩ := hp
      refine ⟨?_, ?_, by omega⟩ <;> rw [hcz, Nat.pow_succ] <;> omega
    have hmem := children_complete' p c hp (by omega) hV hcz hpar
    have hanc : IsAncestor c s := by
      rw [← hc]; exact isAncestor_ancestorAt s _ (by omega)
    exact h c hmem s hs hanc

theorem full_parent_iff {m : TMap} {zoom : Nat} (h30 : zoom ≤ 30) {c : Tile} (hc : V c) (hz : 0 < c.z)
    (hz' : c.z ≤ zoom) : Full m zoom (parent c) ↔ ∀ s ∈ siblings c, Full m zoom s := by
  obtain ⟨hp, hpz, _⟩ := parent_V hc hz
  exact full_children h30 hp (by omega)


/-! ### one visited key -/

theorem foldl_set_false (sibs : List Tile) (m : TMap) (x : Tile) :
    (x ∈ sibs → (sibs.foldl (fun m s => m.set s false) m).get x = false) ∧
    (x ∉ sibs → (sibs.foldl (fun m s => m.set s false) m).get x = m.get x) := by
  induction sibs generalizing m with
  | nil => simp
  | cons a r ih =>
    obtain ⟨h1, h2⟩ := ih (m.set a false)
    simp only [List.foldl_cons, List.mem_cons]
    constructor
    · intro h
      by_cases hr : x ∈ r
      · exact h1 hr
      · rw [h2 hr, TMap.get_set]
        rcases h with h | h
        · simp [h]
        · exact absurd h hr
    · intro h
      have ha : ¬ x = a := fun e => h (Or.inl e)
      have hr : x ∉ r := fun e => h (Or.inr e)
      rw [h2 hr, TMap.get_set, if_neg ha]

def nfStep (st : MState) (sv : Tile × Bool) : MState :=
  if sv.2 then { st with merged := sv.1 :: st.merged, set := st.set.set sv.1 false } else st

theorem foldl_nfStep (ps : List (Tile × Bool)) (st : MState) :
    (∀ x, (x, true) ∈ ps → (ps.foldl nfStep st).set.get x = false) ∧
    (∀ x, (x, true) ∉ ps → (ps.foldl nfStep st).set.get x = st.set.get x) ∧
    (∀ x, x ∈ (ps.foldl nfStep st).merged ↔ x ∈ st.merged ∨ (x, true) ∈ ps) ∧
    (ps.foldl nfStep st).parents = st.parents := by
  induction ps generalizing st with
  | nil => simp
  | cons p r ih =>
    obtain ⟨a, b⟩ := p
    obtain ⟨h1, h1', h2, h3⟩ := ih (nfStep st (a, b))
    simp only [List.foldl_cons]
    cases b with
    | false =>
      have e : nfStep st (a, false) = st := by simp [nfStep]
      rw [e] at h1 h1' h2 h3 ⊢
      refine ⟨fun x hx => ?_, fun x hx => ?_, fun x => ?_, h3⟩
      · apply h1; simpa using hx
      · apply h1'; simpa using hx
      · rw [h2]; simp
    | true =>
      have e : nfStep st (a, true) = ⟨st.set.set a false, a :: st.merged, st.parents⟩ := by simp [nfStep]
      rw [e] at h1 h1' h2 h3 ⊢
      refine ⟨fun x hx => ?_, fun x hx => ?_, fun x => ?_, h3⟩
      · by_cases hr : (x, true) ∈ r
        · exact h1 x hr
        · rw [h1' x hr]
          simp only [List.mem_cons, Prod.mk.injEq, and_true] at hx
          rcases hx with hx | hx
          · simp [TMap.get_set, hx]
          · exact absurd hx hr
      · simp only [List.mem_cons, Prod.mk.injEq, and_true, not_or] at hx
        rw [h1' x hx.2]
        simp [TMap.get_set, hx.1]
      · rw [h2]
        simp only [List.mem_cons, Prod.mk.injEq, and_true]
        constructor
        · rintro ((h | h) | h)
          · exact Or.inr (Or.inl h)
          · exact Or.inl h
          · exact Or.inr (Or.inr h)
        · rintro (h | h | h)
          · exact Or.inl (Or.inr h)
          · exact Or.inl (Or.inl h)
          · exact Or.inr h

theorem mem_zip_map {α β : Type} (l : List α) (f : α → β) (x : α) (b : β) :
    (x, b) ∈ l.zip (l.map f) ↔ x ∈ l ∧ f x = b := by
  induction l with
  | nil => simp
  | cons a r ih =>
    simp only [List.map_cons, List.zip_cons_cons, List.mem_cons, Prod.mk.injEq, ih]
    constructor
    · rintro (⟨rfl, rfl⟩ | ⟨h1, h2⟩)
      · exact ⟨Or.inl rfl, rfl⟩
      · exact ⟨Or.inr h1, h2⟩
    · rintro ⟨rfl | h1, h2⟩
      · exact Or.inl ⟨rfl, h2.symm⟩
      · exact Or.inr ⟨h1, h2⟩

theorem stepTile_of_false (toMerged : Bool) (st : MState) (t : Tile) (ht : st.set.get t = false) :
    stepTile none toMerged st t = st := by
  simp [stepTile, ht]

theorem stepTile_full (toMerged : Bool) (st : MState) (t : Tile) (ht : st.set.get t = true)
    (hq : ∀ s ∈ siblings t, st.set.get s = true) :
    stepTile none toMerged st t =
      if toMerged then ⟨(siblings t).foldl (fun m s => m.set s false) st.set, parent t :: st.merged, st.parents⟩
      else ⟨(siblings t).foldl (fun m s => m.set s false) st.set, st.merged, st.parents.set (parent t) true⟩ := by
  have : ((siblings t).map st.set.get).all id = true := by
    simp only [List.all_map, List.all_eq_true]
    intro s hs; exact hq s hs
  simp only [stepTile, ht, this]
  simp

theorem stepTile_nonfull (toMerged : Bool) (st : MState) (t : Tile) (ht : st.set.get t = true)
    (hq : ¬ ∀ s ∈ siblings t, st.set.get s = true) :
    stepTile none toMerged st t = ((siblings t).zip ((siblings t).map st.set.get)).foldl nfStep st := by
  have : ((siblings t).map st.set.get).all id = false := by
    rw [Bool.eq_false_iff]
    intro h
    apply hq
    simp only [List.all_map, List.all_eq_true] at h
    intro s hs; exact h s hs
  simp only [stepTile, ht, this]
  simp
  rfl


theorem stepTile_set (toMerged : Bool) (st : MState) (t : Tile) (ht : st.set.get t = true) :
    (∀ x, x ∈ siblings t → (stepTile none toMerged st t).set.get x = false) ∧
    (∀ x, x ∉ siblings t → (stepTile none toMerged st t).set.get x = st.set.get x) := by
  by_cases hq : ∀ s ∈ siblings t, st.set.get s = true
  · rw [stepTile_full toMerged st t ht hq]
    cases toMerged <;>
    · simp only [Bool.false_eq_true, if_false, if_true]
      exact ⟨fun x hx => (foldl_set_false _ _ x).1 hx, fun x hx => (foldl_set_false _ _ x).2 hx⟩
  · rw [stepTile_nonfull toMerged st t ht hq]
    obtain ⟨h1, h2, _, _⟩ := foldl_nfStep ((siblings t).zip ((siblings t).map st.set.get)) st
    constructor
    · intro x hx
      by_cases hg : st.set.get x = true
      · exact h1 x ((mem_zip_map _ _ _ _).2 ⟨hx, hg⟩)
      · rw [h2 x (fun h => hg ((mem_zip_map _ _ _ _).1 h).2)]
        simpa using hg
    · intro x hx
      exact h2 x (fun h => hx ((mem_zip_map _ _ _ _).1 h).1)

/-- `stepTile` never turns an entry on. -/
theorem stepTile_mono (toMerged : Bool) (st : MState) (t x : Tile)
    (h : (stepTile none toMerged st t).set.get x = true) : st.set.get x = true := by
  by_cases ht : st.set.get t = true
  · obtain ⟨h1, h2⟩ := stepTile_set toMerged st t ht
    by_cases hx : x ∈ siblings t
    · rw [h1 x hx] at h; cases h
    · rwa [h2 x hx] at h
  · rwa [stepTile_of_false toMerged st t (by simpa using ht)] at h

theorem foldl_stepTile_mono (toMerged : Bool) (l : List Tile) (st : MState) (x : Tile)
    (h : (l.foldl (stepTile none toMerged) st).set.get x = true) : st.set.get x = true := by
  induction l generalizing st with
  | nil => exact h
  | cons a r ih => exact stepTile_mono toMerged st a x (ih _ h)

theorem stepTile_pkeys (toMerged : Bool) (st : MState) (t : Tile)
    (h : ∀ x ∈ st.parents.keys, st.parents.get x = true) :
    ∀ x ∈ (stepTile none toMerged st t).parents.keys, (stepTile none toMerged st t).parents.get x = true := by
  by_cases ht : st.set.get t = true
  · by_cases hq : ∀ s ∈ siblings t, st.set.get s = true
    · rw [stepTile_full toMerged st t ht hq]
      cases toMerged
      · simp only [Bool.false_eq_true, if_false]
        intro x hx
        rw [TMap.mem_keys_set] at hx
        rw [TMap.get_set]
        by_cases e : x = parent t
        · simp [e]
        · rw [if_neg e]
          rcases hx with hx | hx
          · exact h x hx
          · exact absurd hx e
      · simpa using h
    · rw [stepTile_nonfull toMerged st t ht hq]
      obtain ⟨_, _, _, h3⟩ := foldl_nfStep ((siblings t).zip ((siblings t).map st.set.get)) st
      rw [h3]; exact h
  · rw [stepTile_of_false toMerged st t (by simpa using ht)]; exact h

theorem foldl_stepTile_pkeys (toMerged : Bool) (l : List Tile) (st : MState)
    (h : ∀ x ∈ st.parents.keys, st.parents.get x = true) :
    ∀ x ∈ (l.foldl (stepTile none toMerged) st).parents.keys,
      (l.foldl (stepTile none toMerged) st).parents.get x = true := by
  induction l generalizing st with
  | nil => exact h
  | cons a r ih => exact ih _ (stepTile_pkeys toMerged st a h)


/-- Loop invariant of one level, relative to the map `m` the level started with. -/
structure LInv (m : TMap) (toMerged : Bool) (merged0 : List Tile) (parents0 : TMap) (st : MState) : Prop where
  sub : ∀ s, st.set.get s = true → m.get s = true
  quad : ∀ s, st.set.get s = true → ∀ s' ∈ siblings s, st.set.get s' = m.get s'
  mer : ∀ x, x ∈ st.merged ↔ (x ∈ merged0 ∨ (m.get x = true ∧ st.set.get x = false ∧ ¬ QuadIn m x) ∨
     (toMerged = true ∧ ∃ c, m.get c = true ∧ st.set.get c = false ∧ QuadIn m c ∧ parent c = x))
  par : ∀ x, st.parents.get x = true ↔ (parents0.get x = true ∨
     (toMerged = false ∧ ∃ c, m.get c = true ∧ st.set.get c = false ∧ QuadIn m c ∧ parent c = x))

theorem LInv_step {m : TMap} {z : Nat} (hz : 0 < z) (hm : ∀ t, m.get t = true → V t ∧ t.z = z)
    {toMerged : Bool} {merged0 : List Tile} {parents0 : TMap} {st : MState}
    (h : LInv m toMerged merged0 parents0 st) (t : Tile) :
    LInv m toMerged merged0 parents0 (stepTile none toMerged st t) := by
  by_cases ht : st.set.get t = true
  case neg => rw [stepTile_of_false toMerged st t (by simpa using ht)]; exact h
  have mt := h.sub t ht
  obtain ⟨hV, htz⟩ := hm t mt
  have htz0 : 0 < t.z := by omega
  obtain ⟨hs1, hs2⟩ := stepTile_set toMerged st t ht
  have hsib : ∀ s ∈ siblings t, st.set.get s = m.get s := h.quad t ht
  have hQ : (∀ s ∈ siblings t, st.set.get s = true) ↔ QuadIn m t := by
    unfold QuadIn
    constructor
    · intro h' s hs; rw [← hsib s hs]; exact h' s hs
    · intro h' s hs; rw [hsib s hs]; exact h' s hs
  have hpar : ∀ c ∈ siblings t, parent c = parent t := fun c hc =>
    ((mem_siblings_iff hV htz0 c).1 hc).2.2
  have hquad : ∀ c ∈ siblings t, (QuadIn m c ↔ QuadIn m t) := fun c hc => by
    unfold QuadIn; rw [siblings_eq_of_mem hV htz0 hc]
  have hself := self_mem_siblings hV htz0
  generalize hst' : stepTile none toMerged st t = st' at hs1 hs2
  have hproc : ∀ c, (m.get c = true ∧ st'.set.get c = false) ↔
      ((m.get c = true ∧ st.set.get c = false) ∨ (c ∈ siblings t ∧ m.get c = true)) := by
    intro c
    by_cases hc : c ∈ siblings t
    · rw [hs1 c hc]
      constructor
      · rintro ⟨h1, _⟩; exact Or.inr ⟨hc, h1⟩
      · rintro (⟨h1, _⟩ | ⟨_, h1⟩) <;> exact ⟨h1, rfl⟩
    · rw [hs2 c hc]
      constructor
      · intro h'; exact Or.inl h'
      · rintro (h' | ⟨h', _⟩)
        · exact h'
        · exact absurd h' hc
  have hB : ∀ x, (m.get x = true ∧ st'.set.get x = false ∧ ¬ QuadIn m x) ↔
      ((m.get x = true ∧ st.set.get x = false ∧ ¬ QuadIn m x) ∨
        (x ∈ siblings t ∧ m.get x = true ∧ ¬ QuadIn m t)) := by
    intro x
    rw [← and_assoc, hproc x]
    constructor
    · rintro ⟨⟨h1, h2⟩ | ⟨h1, h2⟩, h3⟩
      · exact Or.inl ⟨h1, h2, h3⟩
      · exact Or.inr ⟨h1, h2, fun q => h3 ((hquad x h1).2 q)⟩
    · rintro (⟨h1, h2, h3⟩ | ⟨h1, h2, h3⟩)
      · exact ⟨Or.inl ⟨h1, h2⟩, h3⟩
      · exact ⟨Or.inr ⟨h1, h2⟩, fun q => h3 ((hquad x h1).1 q)⟩
  have hC : ∀ x, (∃ c, m.get c = true ∧ st'.set.get c = false ∧ QuadIn m c ∧ parent c = x) ↔
      ((∃ c, m.get c = true ∧ st.set.get c = false ∧ QuadIn m c ∧ parent c = x) ∨
        (QuadIn m t ∧ parent t = x)) := by
    intro x
    constructor
    · rintro ⟨c, h1, h2, h3, h4⟩
      rcases (hproc c).1 ⟨h1, h2⟩ with ⟨a, b⟩ | ⟨a, b⟩
      · exact Or.inl ⟨c, a, b, h3, h4⟩
      · exact Or.inr ⟨(hquad c a).1 h3, by rw [← hpar c a]; exact h4⟩
    · rintro (⟨c, h1, h2, h3, h4⟩ | ⟨h1, h2⟩)
      · obtain ⟨a, b⟩ := (hproc c).2 (Or.inl ⟨h1, h2⟩)
        exact ⟨c, a, b, h3, h4⟩
      · obtain ⟨a, b⟩ := (hproc t).2 (Or.inr ⟨hself, mt⟩)
        exact ⟨t, a, b, h1, h2⟩
  have hmer := h.mer
  have hpr := h.par
  refine ⟨?_, ?_, ?_, ?_⟩
  · intro s hs
    by_cases hc : s ∈ siblings t
    · rw [hs1 s hc] at hs; cases hs
    · rw [hs2 s hc] at hs; exact h.sub s hs
  · intro s hs s' hs'
    have hc : s ∉ siblings t := fun hc => by rw [hs1 s hc] at hs; cases hs
    rw [hs2 s hc] at hs
    have hne : s' ∉ siblings t := by
      intro hc'
      obtain ⟨hVs, hsz⟩ := hm s (h.sub s hs)
      have e1 := ((mem_siblings_iff hVs (by omega) s').1 hs').2.2
      have e2 := hpar s' hc'
      exact hc ((mem_siblings_iff hV htz0 s).2 ⟨hVs, by omega, by rw [← e1, e2]⟩)
    rw [hs2 s' hne]
    exact h.quad s hs s' hs'
  · intro x
    rw [hB x, hC x]
    by_cases hq : ∀ s ∈ siblings t, st.set.get s = true
    · have hq' := hQ.1 hq
      rw [stepTile_full toMerged st t ht hq] at hst'
      cases toMerged
      · simp only [Bool.false_eq_true, if_false] at hst'
        subst hst'
        simp only
        rw [hmer x]
        simp [hq']
      · simp only [if_true] at hst'
        subst hst'
        simp only [List.mem_cons]
        rw [hmer x]
        simp only [hq', not_true_eq_false, and_false, or_false, true_and]
        grind
    · have hq' : ¬ QuadIn m t := fun q => hq (hQ.2 q)
      rw [stepTile_nonfull toMerged st t ht hq] at hst'
      obtain ⟨_, _, h3, _⟩ := foldl_nfStep ((siblings t).zip ((siblings t).map st.set.get)) st
      rw [hst'] at h3
      rw [h3 x, mem_zip_map, hmer x]
      have : (x ∈ siblings t ∧ st.set.get x = true) ↔ (x ∈ siblings t ∧ m.get x = true) := by
        constructor
        · rintro ⟨a, b⟩; exact ⟨a, by rw [← hsib x a]; exact b⟩
        · rintro ⟨a, b⟩; exact ⟨a, by rw [hsib x a]; exact b⟩
      rw [this]
      simp only [hq', not_false_eq_true, and_true, false_and, or_false]
      grind
  · intro x
    rw [hC x]
    by_cases hq : ∀ s ∈ siblings t, st.set.get s = true
    · have hq' := hQ.1 hq
      rw [stepTile_full toMerged st t ht hq] at hst'
      cases toMerged
      · simp only [Bool.false_eq_true, if_false] at hst'
        subst hst'
        simp only [TMap.get_set]
        by_cases e : x = parent t
        · simp [e, hq']
        · rw [if_neg e, hpr x]
          have e' : ¬ parent t = x := fun h => e h.symm
          simp [e']
      · simp only [if_true] at hst'
        subst hst'
        simp only
        rw [hpr x]
        simp
    · have hq' : ¬ QuadIn m t := fun q => hq (hQ.2 q)
      rw [stepTile_nonfull toMerged st t ht hq] at hst'
      obtain ⟨_, _, _, h4⟩ := foldl_nfStep ((siblings t).zip ((siblings t).map st.set.get)) st
      rw [hst'] at h4
      rw [h4, hpr x]
      simp [hq']


theorem LInv_foldl {m : TMap} {z : Nat} (hz : 0 < z) (hm : ∀ t, m.get t = true → V t ∧ t.z = z)
    {toMerged : Bool} {merged0 : List Tile} {parents0 : TMap} (l : List Tile) (st : MState)
    (h : LInv m toMerged merged0 parents0 st) :
    LInv m toMerged merged0 parents0 (l.foldl (stepTile none toMerged) st) ∧
      ∀ t ∈ l, (l.foldl (stepTile none toMerged) st).set.get t = false := by
  induction l generalizing st with
  | nil => exact ⟨h, by simp⟩
  | cons a r ih =>
    have h' := LInv_step hz hm h a
    obtain ⟨i1, i2⟩ := ih _ h'
    refine ⟨i1, ?_⟩
    intro t ht
    rcases List.mem_cons.1 ht with rfl | ht
    · rw [List.foldl_cons, Bool.eq_false_iff]
      intro hc
      have h1 := foldl_stepTile_mono toMerged r _ t hc
      by_cases hg : st.set.get t = true
      · obtain ⟨hV, htz⟩ := hm t (h.sub t hg)
        rw [(stepTile_set toMerged st t hg).1 t (self_mem_siblings hV (by omega))] at h1
        cases h1
      · rw [stepTile_of_false toMerged st t (by simpa using hg)] at h1
        exact hg h1
    · exact i2 t ht



/-! ### one level, order-free -/

theorem fair_of_perm' (o : Orders) (h1 : ∀ l, (o.first l).Perm l) (h2 : ∀ z l, (o.level z l).Perm l) : o.Fair :=
  ⟨fun l _ ht => (h1 l).mem_iff.2 ht, fun z l _ ht => (h2 z l).mem_iff.2 ht⟩

theorem level_step_spec' (l : List Tile) (m : TMap) (z : Nat) (hz : 0 < z)
    (hm : ∀ t, m.get t = true → V t ∧ t.z = z) (hl : ∀ t, m.get t = true → t ∈ l)
    (toMerged : Bool) (merged0 : List Tile) (parents0 : TMap) :
    (∀ t, (l.foldl (stepTile none toMerged) ⟨m, merged0, parents0⟩).set.get t = false) ∧
    (∀ t, t ∈ (l.foldl (stepTile none toMerged) ⟨m, merged0, parents0⟩).merged ↔
      (t ∈ merged0 ∨ (m.get t = true ∧ ¬ QuadIn m t) ∨
        (toMerged = true ∧ ∃ c, m.get c = true ∧ QuadIn m c ∧ parent c = t))) ∧
    (∀ t, (l.foldl (stepTile none toMerged) ⟨m, merged0, parents0⟩).parents.get t = true ↔
      (parents0.get t = true ∨
        (toMerged = false ∧ ∃ c, m.get c = true ∧ QuadIn m c ∧ parent c = t))) := by
  have h0 : LInv m toMerged merged0 parents0 ⟨m, merged0, parents0⟩ := by
    refine ⟨fun s hs => hs, fun s _ s' _ => rfl, fun x => ?_, fun x => ?_⟩
    · simp only
      constructor
      · intro h; exact Or.inl h
      · rintro (h | ⟨h1, h2, _⟩ | ⟨_, c, h1, h2, _⟩)
        · exact h
        · rw [h1] at h2; cases h2
        · rw [h1] at h2; cases h2
    · simp only
      constructor
      · intro h; exact Or.inl h
      · rintro (h | ⟨_, c, h1, h2, _⟩)
        · exact h
        · rw [h1] at h2; cases h2
  obtain ⟨hI, hF⟩ := LInv_foldl hz hm l _ h0
  generalize l.foldl (stepTile none toMerged) ⟨m, merged0, parents0⟩ = st at hI hF
  have hall : ∀ t, st.set.get t = false := by
    intro t
    by_cases hmt : m.get t = true
    · exact hF t (hl t hmt)
    · rw [Bool.eq_false_iff]
      exact fun hc => hmt (hI.sub t hc)
  refine ⟨hall, fun t => ?_, fun t => ?_⟩
  · rw [hI.mer t]
    simp [hall]
  · rw [hI.par t]
    simp [hall]

/-! ### the level loop in terms of `Full` -/

theorem firstTrueZoom_none (m : TMap) (l : List Tile) (h : ∀ t ∈ l, m.get t = false) :
    firstTrueZoom m l = 1 := by
  induction l with
  | nil => rfl
  | cons a r ih =>
    simp only [firstTrueZoom, h a (List.mem_cons_self ..)]
    exact ih (fun t ht => h t (List.mem_cons_of_mem _ ht))

theorem firstTrueZoom_some (m : TMap) (l : List Tile) (zoom : Nat) (hm : ∀ t, m.get t = true → t.z = zoom)
    (h : ∃ t ∈ l, m.get t = true) : firstTrueZoom m l = zoom := by
  induction l with
  | nil => obtain ⟨t, ht, _⟩ := h; cases ht
  | cons a r ih =>
    simp only [firstTrueZoom]
    by_cases ha : m.get a = true
    · rw [if_pos ha]; exact hm a ha
    · rw [if_neg ha]
      apply ih
      obtain ⟨t, ht, hg⟩ := h
      rcases List.mem_cons.1 ht with rfl | ht
      · exact absurd hg ha
      · exact ⟨t, ht, hg⟩

theorem foldl_stepTile_allfalse (b : Bool) (l : List Tile) (st : MState) (h : ∀ t, st.set.get t = false) :
    l.foldl (stepTile none b) st = st := by
  induction l with
  | nil => rfl
  | cons a r ih => rw [List.foldl_cons, stepTile_of_false b st a (h a)]; exact ih

theorem mergeLoop_succ (o : Orders) (min k : Nat) (set : TMap) (merged : List Tile) :
    mergeLoop o none min (k + 1) set merged =
      if (((o.level (min + (k + 1)) set.keys).foldl (stepTile none (min + (k + 1) - 1 == min))
            ⟨set, merged, []⟩).parents.len : Int) < 4 then
        ((o.level (min + (k + 1)) set.keys).foldl (stepTile none (min + (k + 1) - 1 == min))
            ⟨set, merged, []⟩).parents.keys ++
        ((o.level (min + (k + 1)) set.keys).foldl (stepTile none (min + (k + 1) - 1 == min))
            ⟨set, merged, []⟩).merged
      else mergeLoop o none min k
        ((o.level (min + (k + 1)) set.keys).foldl (stepTile none (min + (k + 1) - 1 == min))
            ⟨set, merged, []⟩).parents
        ((o.level (min + (k + 1)) set.keys).foldl (stepTile none (min + (k + 1) - 1 == min))
            ⟨set, merged, []⟩).merged := rfl

theorem mergeLoop_allfalse (o : Orders) (min k : Nat) (set : TMap) (merged : List Tile)
    (h : ∀ t, set.get t = false) : mergeLoop o none min k set merged = merged := by
  cases k with
  | zero => rfl
  | succ k =>
    rw [mergeLoop_succ, foldl_stepTile_allfalse _ _ _ h]
    simp [TMap.len, TMap.keys]

theorem full_descend {m : TMap} {zoom : Nat} (hm : ∀ t, m.get t = true → V t ∧ t.z = zoom) (d : Nat) :
    ∀ u, Full m zoom u → u.z + d ≤ zoom → ∃ u', u'.z = u.z + d ∧ Full m zoom u' := by
  induction d with
  | zero => intro u hu _; exact ⟨u, rfl, hu⟩
  | succ d ih =>
    intro u hu hz
    obtain ⟨hV, h30⟩ := full_V hm hu (by omega)
    have hc : (⟨2 * u.x, 2 * u.y, u.z + 1⟩ : Tile) ∈ children u := by
      rw [children_eq u hV]; simp
    have hf := (full_children h30 hV (by omega)).1 hu _ hc
    obtain ⟨u', h1, h2⟩ := ih _ hf (by simp only; omega)
    exact ⟨u', by simp only at h1; omega, h2⟩

theorem four_le_len_of_full {m : TMap} {zoom : Nat} (h30 : zoom ≤ 30) {p : Tile} (hp : V p)
    (hz : p.z < zoom) (hf : Full m zoom p) (set : TMap)
    (hS : ∀ t, t.z = p.z + 1 → Full m zoom t → set.get t = true) : 4 ≤ set.len := by
  have hch := (full_children h30 hp hz).1 hf
  rw [children_eq p hp] at hch
  simp only [List.mem_cons, List.not_mem_nil, or_false, forall_eq_or_imp, forall_eq] at hch
  obtain ⟨h1, h2, h3, h4⟩ := hch
  rw [← TMap.length_keys]
  refine four_le_length set.keys _ _ _ _
    (TMap.mem_keys_of_get (hS _ rfl h1)) (TMap.mem_keys_of_get (hS _ rfl h2))
    (TMap.mem_keys_of_get (hS _ rfl h3)) (TMap.mem_keys_of_get (hS _ rfl h4)) ?_ ?_ ?_ ?_ ?_ ?_ <;>
  · simp only [ne_eq, Tile.mk.injEq, and_true]
    omega

section level
variable {m : TMap} {zoom : Nat} (hm : ∀ t, m.get t = true → V t ∧ t.z = zoom) (h30 : zoom ≤ 30)
  {z : Nat} (hz : 0 < z) (hzz : z ≤ zoom) {set : TMap}
  (hS : ∀ t, set.get t = true ↔ (t.z = z ∧ Full m zoom t))
include hm h30 hz hzz hS

theorem quadIn_iff_full {c : Tile} (hc : set.get c = true) :
    QuadIn set c ↔ Full m zoom (parent c) := by
  obtain ⟨hcz, hcf⟩ := (hS c).1 hc
  obtain ⟨hV, _⟩ := full_V hm hcf (by omega)
  rw [full_parent_iff h30 hV (by omega) (by omega)]
  unfold QuadIn
  constructor
  · intro h s hs; exact ((hS s).1 (h s hs)).2
  · intro h s hs
    have := ((mem_siblings_iff hV (by omega) s).1 hs).2.1
    exact (hS s).2 ⟨by omega, h s hs⟩

theorem exists_quad_iff (t : Tile) :
    (∃ c, set.get c = true ∧ QuadIn set c ∧ parent c = t) ↔ (t.z + 1 = z ∧ Full m zoom t) := by
  constructor
  · rintro ⟨c, h1, h2, rfl⟩
    obtain ⟨hcz, hcf⟩ := (hS c).1 h1
    obtain ⟨hV, _⟩ := full_V hm hcf (by omega)
    obtain ⟨_, hpz, _⟩ := parent_V hV (by omega)
    exact ⟨by omega, (quadIn_iff_full hm h30 hz hzz hS h1).1 h2⟩
  · rintro ⟨h1, h2⟩
    obtain ⟨hV, _⟩ := full_V hm h2 (by omega)
    have hc : (⟨2 * t.x, 2 * t.y, t.z + 1⟩ : Tile) ∈ children t := by
      rw [children_eq t hV]; simp
    obtain ⟨_, _, hpar⟩ := children_valid_parent' t hV (by omega) _ hc
    have hf := (full_children h30 hV (by omega)).1 h2 _ hc
    have hg := (hS _).2 ⟨by simp only; omega, hf⟩
    refine ⟨_, hg, ?_, hpar⟩
    rw [quadIn_iff_full hm h30 hz hzz hS hg, hpar]
    exact h2

theorem level_closed (o : Orders) (ho : o.Fair) (merged : List Tile) (b : Bool) (st : MState)
    (hst : st = (o.level z set.keys).foldl (stepTile none b) ⟨set, merged, []⟩) :
    (∀ t, t ∈ st.merged ↔ (t ∈ merged ∨ (t.z = z ∧ Full m zoom t ∧ ¬ Full m zoom (parent t)) ∨
      (b = true ∧ t.z + 1 = z ∧ Full m zoom t))) ∧
    (∀ t, st.parents.get t = true ↔ (b = false ∧ t.z + 1 = z ∧ Full m zoom t)) ∧
    (∀ t, t ∈ st.parents.keys ↔ st.parents.get t = true) := by
  have hm' : ∀ t, set.get t = true → V t ∧ t.z = z := by
    intro t ht
    obtain ⟨h1, h2⟩ := (hS t).1 ht
    exact ⟨(full_V hm h2 (by omega)).1, h1⟩
  have hl : ∀ t, set.get t = true → t ∈ o.level z set.keys :=
    fun t ht => ho.level z _ t (TMap.mem_keys_of_get ht)
  obtain ⟨_, h2, h3⟩ := level_step_spec' _ set z hz hm' hl b merged []
  rw [← hst] at h2 h3
  have hk := foldl_stepTile_pkeys b (o.level z set.keys) ⟨set, merged, []⟩ (by simp [TMap.keys])
  rw [← hst] at hk
  refine ⟨fun t => ?_, fun t => ?_, fun t => ⟨hk t, TMap.mem_keys_of_get⟩⟩
  · rw [h2 t, exists_quad_iff hm h30 hz hzz hS t]
    have : (set.get t = true ∧ ¬ QuadIn set t) ↔ (t.z = z ∧ Full m zoom t ∧ ¬ Full m zoom (parent t)) := by
      constructor
      · rintro ⟨a, b⟩
        obtain ⟨a1, a2⟩ := (hS t).1 a
        exact ⟨a1, a2, fun q => b ((quadIn_iff_full hm h30 hz hzz hS a).2 q)⟩
      · rintro ⟨a1, a2, a3⟩
        have a := (hS t).2 ⟨a1, a2⟩
        exact ⟨a, fun q => a3 ((quadIn_iff_full hm h30 hz hzz hS a).1 q)⟩
    rw [this]
  · rw [h3 t, exists_quad_iff hm h30 hz hzz hS t]
    simp [TMap.get]

end level


theorem parent_z_of_V {t : Tile} (ht : V t) (hz : 0 < t.z) : (parent t).z + 1 = t.z :=
  (parent_V ht hz).2.1

theorem mergeLoop_spec (o : Orders) (ho : o.Fair) (m : TMap) (zoom min : Nat)
    (hm : ∀ t, m.get t = true → V t ∧ t.z = zoom) (h30 : zoom ≤ 30) :
    ∀ (k : Nat) (set : TMap) (merged : List Tile), min + k ≤ zoom →
      (∀ t, set.get t = true ↔ (t.z = min + k ∧ Full m zoom t)) →
      (∀ t, t ∈ merged ↔ (min + k < t.z ∧ t.z ≤ zoom ∧ Full m zoom t ∧ ¬ Full m zoom (parent t))) →
      (k = 0 → ∀ t, set.get t = false) →
      ∀ t, t ∈ mergeLoop o none min k set merged ↔
        (min ≤ t.z ∧ t.z ≤ zoom ∧ Full m zoom t ∧ (t.z = min ∨ ¬ Full m zoom (parent t))) := by
  intro k
  induction k with
  | zero =>
    intro set merged hk hS hM h0 t
    have h0 := h0 rfl
    show t ∈ merged ↔ _
    rw [hM t]
    constructor
    · rintro ⟨a, b, c, d⟩; exact ⟨by omega, b, c, Or.inr d⟩
    · rintro ⟨a, b, c, d⟩
      have hne : t.z ≠ min := by
        intro e
        have := (hS t).2 ⟨by omega, c⟩
        rw [h0 t] at this; cases this
      rcases d with d | d
      · exact absurd d hne
      · exact ⟨by omega, b, c, d⟩
  | succ k ih =>
    intro set merged hk hS hM _ t
    rw [mergeLoop_succ]
    generalize hst : (o.level (min + (k + 1)) set.keys).foldl (stepTile none (min + (k + 1) - 1 == min))
            ⟨set, merged, []⟩ = st
    obtain ⟨hmer, hpar, hkeys⟩ := level_closed hm h30 (z := min + (k + 1)) (by omega) hk hS o ho merged _ st hst.symm
    rcases Nat.eq_zero_or_pos k with rfl | hkpos
    · -- last level: parents go to `merged`
      have hb : (min + (0 + 1) - 1 == min) = true := by simp
      rw [hb] at hmer hpar
      have hnk : ∀ x, x ∉ st.parents.keys := by
        intro x hx
        have := (hpar x).1 ((hkeys x).1 hx)
        simp at this
      have hres : t ∈ (if ((st.parents.len : Int) < 4) then st.parents.keys ++ st.merged
          else mergeLoop o none min 0 st.parents st.merged) ↔ t ∈ st.merged := by
        split
        · rw [List.mem_append]
          constructor
          · rintro (h | h)
            · exact absurd h (hnk t)
            · exact h
          · intro h; exact Or.inr h
        · exact Iff.rfl
      rw [hres, hmer t, hM t]
      constructor
      · rintro (⟨a, b, c, d⟩ | ⟨a, c, d⟩ | ⟨_, a, c⟩)
        · exact ⟨by omega, b, c, Or.inr d⟩
        · exact ⟨by omega, by omega, c, Or.inr d⟩
        · exact ⟨by omega, by omega, c, Or.inl (by omega)⟩
      · rintro ⟨a, b, c, d⟩
        by_cases e : t.z = min
        · exact Or.inr (Or.inr ⟨rfl, by omega, c⟩)
        · have d' : ¬ Full m zoom (parent t) := by
            rcases d with d | d
            · exact absurd d e
            · exact d
          by_cases e' : t.z = min + (0 + 1)
          · exact Or.inr (Or.inl ⟨e', c, d'⟩)
          · exact Or.inl ⟨by omega, b, c, d'⟩
    · -- other levels
      have hb : (min + (k + 1) - 1 == min) = false := by
        rw [beq_eq_false_iff_ne]; omega
      rw [hb] at hmer hpar
      have hS' : ∀ t, st.parents.get t = true ↔ (t.z = min + k ∧ Full m zoom t) := by
        intro t
        rw [hpar t]
        constructor
        · rintro ⟨_, a, b⟩; exact ⟨by omega, b⟩
        · rintro ⟨a, b⟩; exact ⟨rfl, by omega, b⟩
      have hM' : ∀ t, t ∈ st.merged ↔
          (min + k < t.z ∧ t.z ≤ zoom ∧ Full m zoom t ∧ ¬ Full m zoom (parent t)) := by
        intro t
        rw [hmer t, hM t]
        constructor
        · rintro (⟨a, b, c, d⟩ | ⟨a, c, d⟩ | ⟨a, _⟩)
          · exact ⟨by omega, b, c, d⟩
          · exact ⟨by omega, by omega, c, d⟩
          · cases a
        · rintro ⟨a, b, c, d⟩
          by_cases e : t.z = min + (k + 1)
          · exact Or.inr (Or.inl ⟨e, c, d⟩)
          · exact Or.inl ⟨by omega, b, c, d⟩
      split
      · rename_i hlen
        -- early exit: nothing shallower is full
        have hN : ∀ u, Full m zoom u → u.z < min + k → False := by
          intro u hu huz
          obtain ⟨u', h1, h2⟩ := full_descend hm (min + k - 1 - u.z) u hu (by omega)
          obtain ⟨hV', _⟩ := full_V hm h2 (by omega)
          have := four_le_len_of_full h30 hV' (by omega) h2 st.parents
            (fun x hx hf => (hS' x).2 ⟨by omega, hf⟩)
          omega
        rw [List.mem_append, hkeys t, hS' t, hM' t]
        constructor
        · rintro (⟨a, c⟩ | ⟨a, b, c, d⟩)
          · refine ⟨by omega, by omega, c, Or.inr ?_⟩
            intro hp
            obtain ⟨hV, _⟩ := full_V hm c (by omega)
            have := parent_z_of_V hV (by omega)
            exact hN _ hp (by omega)
          · exact ⟨by omega, b, c, Or.inr d⟩
        · rintro ⟨a, b, c, d⟩
          by_cases e : t.z = min + k
          · exact Or.inl ⟨e, c⟩
          · have hgt : min + k < t.z := by
              rcases Nat.lt_or_ge t.z (min + k) with h | h
              · exact absurd (hN t c h) id
              · omega
            rcases d with d | d
            · omega
            · exact Or.inr ⟨hgt, b, c, d⟩
      · exact ih st.parents st.merged (by omega) hS' hM' (by omega) t


theorem mergeUp_eq (o : Orders) (m : TMap) (min : Nat) :
    mergeUp o m min =
      if (min == firstTrueZoom m (o.first m.keys)) = true then m
      else (mergeLoop o none min (firstTrueZoom m (o.first m.keys) - min) m []).map fun t => (t, true) := rfl

theorem exists_true_of_full {m : TMap} {zoom : Nat} (hm : ∀ t, m.get t = true → V t ∧ t.z = zoom)
    {t : Tile} (hf : Full m zoom t) (hz : t.z ≤ zoom) : ∃ s, m.get s = true := by
  obtain ⟨u, h1, h2⟩ := full_descend hm (zoom - t.z) t hf (by omega)
  exact ⟨u, (full_at_zoom m zoom u (by omega)).1 h2⟩

theorem closed_form_aux (o : Orders) (ho : o.Fair) (m : TMap) (zoom min : Nat)
    (hm : ∀ t, m.get t = true → V t ∧ t.z = zoom) (hmin : min ≤ zoom) (t : Tile) :
    (mergeUp o m min).get t = true ↔
      (min ≤ t.z ∧ t.z ≤ zoom ∧ Full m zoom t ∧ (t.z = min ∨ ¬ Full m zoom (parent t))) := by
  rw [mergeUp_eq]
  by_cases hex : ∃ t0, m.get t0 = true
  · obtain ⟨t0, ht0⟩ := hex
    have h30 : zoom ≤ 30 := by
      obtain ⟨hV, hz⟩ := hm t0 ht0
      have := hV.2.2
      omega
    have hmax : firstTrueZoom m (o.first m.keys) = zoom :=
      firstTrueZoom_some m _ zoom (fun t ht => (hm t ht).2)
        ⟨t0, ho.first _ _ (TMap.mem_keys_of_get ht0), ht0⟩
    rw [hmax]
    by_cases hmz : min = zoom
    · subst hmz
      simp only [beq_self_eq_true, if_true]
      constructor
      · intro h
        obtain ⟨_, hz⟩ := hm t h
        exact ⟨by omega, by omega, (full_at_zoom m min t hz).2 h, Or.inl hz⟩
      · rintro ⟨a, b, c, _⟩
        exact (full_at_zoom m min t (by omega)).1 c
    · have hb : (min == zoom) = false := by rw [beq_eq_false_iff_ne]; exact hmz
      rw [hb]
      simp only [Bool.false_eq_true, if_false]
      rw [TMap.get_map_true]
      refine mergeLoop_spec o ho m zoom min hm h30 (zoom - min) m [] (by omega) ?_ ?_ (by omega) t
      · intro x
        constructor
        · intro h
          obtain ⟨_, hz⟩ := hm x h
          exact ⟨by omega, (full_at_zoom m zoom x hz).2 h⟩
        · rintro ⟨a, b⟩
          exact (full_at_zoom m zoom x (by omega)).1 b
      · intro x
        constructor
        · intro h; cases h
        · rintro ⟨a, b, _⟩; omega
  · have hall : ∀ x, m.get x = false := by
      intro x
      rw [Bool.eq_false_iff]
      exact fun h => hex ⟨x, h⟩
    have hL : ((if (min == firstTrueZoom m (o.first m.keys)) = true then m
      else (mergeLoop o none min (firstTrueZoom m (o.first m.keys) - min) m []).map
        fun t => (t, true)) : TMap).get t = false := by
      split
      · exact hall t
      · rw [mergeLoop_allfalse _ _ _ _ _ hall]; rfl
    rw [hL]
    constructor
    · intro h; cases h
    · rintro ⟨_, b, c, _⟩
      exact absurd (exists_true_of_full hm c b) hex


/-! ### main theorems -/

theorem mergeUp_closed_form' (o : Orders) (ho : o.Fair) (m : TMap) (zoom min : Nat)
    (hm : ∀ t, m.get t = true → V t ∧ t.z = zoom) (hmin : min ≤ zoom) (t : Tile) :
    (mergeUp o m min).get t = true ↔
      (min ≤ t.z ∧ t.z ≤ zoom ∧ Full m zoom t ∧ (t.z = min ∨ ¬ Full m zoom (parent t))) :=
  closed_form_aux o ho m zoom min hm hmin t

theorem mergeUp_order_irrelevant' (o₁ o₂ : Orders) (h₁ : o₁.Fair) (h₂ : o₂.Fair) (m : TMap) (zoom min : Nat)
    (hm : ∀ t, m.get t = true → V t ∧ t.z = zoom) (hmin : min ≤ zoom) (t : Tile) :
    (mergeUp o₁ m min).get t = (mergeUp o₂ m min).get t := by
  rw [Bool.eq_iff_iff, mergeUp_closed_form' o₁ h₁ m zoom min hm hmin t,
    mergeUp_closed_form' o₂ h₂ m zoom min hm hmin t]

theorem mergeUp_spec' (o : Orders) (ho : o.Fair) (m : TMap) (zoom min : Nat)
    (hm : ∀ t, m.get t = true → V t ∧ t.z = zoom) (hmin : min ≤ zoom) :
    (∀ a b, (mergeUp o m min).get a = true → (mergeUp o m min).get b = true → IsAncestor a b → a = b) ∧
    (∀ t, (mergeUp o m min).get t = true → min ≤ t.z ∧ t.z ≤ zoom) ∧
    (∀ s, s.z = zoom → (m.get s = true ↔ ∃ t, (mergeUp o m min).get t = true ∧ IsAncestor t s)) ∧
    (∀ t, (mergeUp o m min).get t = true → min < t.z → ¬ ∀ s ∈ siblings t, (mergeUp o m min).get s = true) := by
  have cf := mergeUp_closed_form' o ho m zoom min hm hmin
  refine ⟨?_, ?_, ?_, ?_⟩
  · intro a b ha hb hanc
    obtain ⟨a1, a2, a3, a4⟩ := (cf a).1 ha
    obtain ⟨b1, b2, b3, b4⟩ := (cf b).1 hb
    by_cases hz : a.z = b.z
    · obtain ⟨_, e⟩ := hanc
      have : b.z - a.z = 0 := by omega
      rw [this, ancestorAt_zero] at e
      exact e
    · exfalso
      have hle := hanc.1
      obtain ⟨hVb, _⟩ := full_V hm b3 b2
      have pz := parent_z_of_V hVb (by omega)
      have hnf : ¬ Full m zoom (parent b) := by
        rcases b4 with h | h
        · omega
        · exact h
      have hpb := isAncestor_parent (c := b) (by omega) (by have := hVb.2.2; omega)
      exact hnf (full_mono (isAncestor_restrict hanc hpb (by omega)) a3)
  · intro t ht
    obtain ⟨a, b, _⟩ := (cf t).1 ht
    exact ⟨a, b⟩
  · intro s hs
    constructor
    · intro hg
      have hfs : Full m zoom s := (full_at_zoom m zoom s hs).2 hg
      have key : ∀ j u, IsAncestor u s → Full m zoom u → min ≤ u.z → u.z ≤ zoom → u.z - min = j →
          ∃ t, (mergeUp o m min).get t = true ∧ IsAncestor t s := by
        intro j
        induction j with
        | zero =>
          intro u h1 h2 h3 h4 h5
          exact ⟨u, (cf u).2 ⟨h3, h4, h2, Or.inl (by omega)⟩, h1⟩
        | succ j ih =>
          intro u h1 h2 h3 h4 h5
          by_cases hp : Full m zoom (parent u)
          · obtain ⟨hV, _⟩ := full_V hm h2 h4
            have pz := parent_z_of_V hV (by omega)
            have hpu := isAncestor_parent (c := u) (by omega) (by have := hV.2.2; omega)
            exact ih (parent u) (isAncestor_trans hpu h1) hp (by omega) (by omega) (by omega)
          · exact ⟨u, (cf u).2 ⟨h3, h4, h2, Or.inr hp⟩, h1⟩
      exact key (s.z - min) s (isAncestor_refl s) hfs (by omega) (by omega) rfl
    · rintro ⟨t, ht, hanc⟩
      exact ((cf t).1 ht).2.2.1 s hs hanc
  · intro t ht hlt hall
    obtain ⟨a, b, c, d⟩ := (cf t).1 ht
    obtain ⟨hV, h30⟩ := full_V hm c b
    have hnf : ¬ Full m zoom (parent t) := by
      rcases d with h | h
      · omega
      · exact h
    apply hnf
    rw [full_parent_iff h30 hV (by omega) b]
    intro s hs
    exact ((cf s).1 (hall s hs)).2.2.1

end Orb.TileCover
