/-
  C02 — GeoJSON (JSON and BSON) round-trips geometry, feature, collection;
  and the GeoJSON share of C05 (the decoders on arbitrary documents).
  PROPERTY THEOREMS about the model `Orb.GeoJSON` (geojson/geometry.go, feature.go,
  feature_collection.go, bbox.go) at the level of the document tree `Json`.

  The reflection-driven serialisers (encoding/json, mongo-driver bson) are trusted: text ⇄ tree is
  not modelled; the correspondence run compares the trees Go writes with `geomDoc` / `featureDoc` /
  `fcDoc`, and Go's decode outcomes with `geomOfDoc` / `featureOfDoc` / `fcOfDoc`.

  Quantifier.  `okG g`: every coordinate finite and no collection has an EMPTY collection as a
  member; `okFeature`: id ∈ {absent, string, number}, finite bbox, properties a Go map of
  JSON-representable values (`okMembers`: finite numbers, keys strictly increasing = the map written
  key-sorted); `okFC`: such features, foreign members not named type / bbox / features.  For bson
  additionally `nonEmptyMulti` (`okVB`, `okFeatureB`, `okFCB`): no multi-geometry of length 0.
  Where the code falls short of the property the full statement stays visible as a
  `def …_full : Prop` with its refutation next to it.
-/
import OrbProofs.C02Lemmas
import OrbProofs.C02FC
import OrbProofs.C02Total

namespace Orb.GeoJSON

/-! ### geometry -/

/-- `UnmarshalGeometry(NewGeometry(g).MarshalJSON())` resp. the bson pair: the canonical value
    (ring and bound as the one-ring polygon, members likewise), bit-identical coordinates. -/
theorem geom_roundtrip (c : Codec) (g : G) (hok : okG g = true) (hb : c = .json ∨ nonEmptyMulti g = true)
    (hne : isEmptyColl g = false) : geomOfDoc c (geomDoc c (.val g)) = .ok (.val (canonG g)) :=
  geom_roundtrip' c g hok hb hne

/-- `json.Unmarshal` into a `*Geometry` pointer, for every top-level Go value: an empty (or nil)
    collection comes back as the null geometry, a typed nil slice as itself. -/
theorem geom_roundtrip_ptr (v : V) (hok : okV v = true) :
    geomPtrOfDoc (geomDoc .json v) = .ok (canonV v) := geom_roundtrip_ptr' v hok

/-- The full statement of the property's geometry clause for the `UnmarshalGeometry` entry point:
    every geometry with finite coordinates, nested collections included. -/
def geom_roundtrip_full : Prop :=
  ∀ g : G, finiteG g = true → geomOfDoc .json (geomDoc .json (.val g)) = .ok (canonV (.val g))

/-- … which is FALSE: (a) a collection with an empty collection as a member is written as
    `"geometries":[null]`, which the decoder rejects (invalid geometry);
    (b) a top-level empty collection is written as `null`, which `UnmarshalGeometry` rejects. -/
theorem geom_roundtrip_full_false : ¬ geom_roundtrip_full := geom_roundtrip_full_false'

theorem nested_empty_collection_rejected (c : Codec) :
    geomDoc c (.val (.collection [.collection []])) = nullMemberDoc ∧
    geomOfDoc c nullMemberDoc = .err .invalid := ⟨nested_empty_doc' c, null_member_rejected' c⟩

theorem empty_collection_rejected :
    geomOfDoc .json (geomDoc .json (.val (.collection []))) = .err .invalid := empty_collection_rejected'

/-- bson: `omitempty` drops the coordinates of an empty multi-geometry and the decoder then fails. -/
theorem bson_empty_coordinates_false :
    geomDoc .bson (.val (.multiPoint [])) = .obj [("type", .str "MultiPoint")] ∧
    geomOfDoc .bson (geomDoc .bson (.val (.multiPoint []))) = .err .json := bson_empty_coordinates'

/-- RFC 7946 shape: "type" names the kind, "coordinates" is nested exactly depth(kind) ∈
    {1,2,2,3,3,4} deep, collections use "geometries" (recursively). -/
theorem doc_wellformed (c : Codec) (g : G) (hok : okG g = true) (hb : c = .json ∨ nonEmptyMulti g = true)
    (hne : isEmptyColl g = false) : wellformed (geomDoc c (.val g)) = true := by
  rw [geomDoc_val c g hne]; exact doc_wellformed' c g hok hb hne

/-- marshalling the decoded value again gives the same document (byte-identical JSON, the
    serialiser being deterministic) -/
theorem remarshal_fixed (v : V) (hok : okV v = true) (hr : noNilRing v = true) :
    ∃ w, geomPtrOfDoc (geomDoc .json v) = .ok w ∧ geomDoc .json w = geomDoc .json v :=
  ⟨canonV v, geom_roundtrip_ptr' v hok, remarshal_geom' .json v (noNilRing_ne v hr)⟩

theorem remarshal_fixed_bson (g : G) (hok : okG g = true) (hb : nonEmptyMulti g = true)
    (hne : isEmptyColl g = false) :
    ∃ w, geomOfDoc .bson (geomDoc .bson (.val g)) = .ok w ∧ geomDoc .bson w = geomDoc .bson (.val g) :=
  ⟨.val (canonG g), geom_roundtrip' .bson g hok (Or.inr hb) hne, by
    have := remarshal_geom' .bson (.val g) (by simp)
    cases g with
    | collection gs => cases gs with
      | nil => simp [isEmptyColl] at hne
      | cons _ _ => exact this
    | _ => exact this⟩

/-! ### feature -/

/-- same id, bbox, properties (empty ↦ nil), geometry (canonical; empty collection ↦ nil) -/
theorem feature_roundtrip (c : Codec) (f : Feature) (hok : okFeature f = true)
    (hb : c = .json ∨ okFeatureB f = true) :
    featureOfDoc c false (featureDoc c f) = .ok (canonF f) := feature_roundtrip' c f hok hb

theorem feature_remarshal_fixed (c : Codec) (f : Feature) (hok : okFeature f = true)
    (hr : noNilRing f.geom = true) : featureDoc c (canonF f) = featureDoc c f :=
  feature_remarshal' c f hok hr

/-! ### feature collection -/

/-- same bbox, features (each canonical), foreign members (none ↦ nil map) -/
theorem fc_roundtrip (c : Codec) (x : FC) (hok : okFC x = true) (hb : c = .json ∨ okFCB x = true) :
    fcOfDoc c false (fcDoc c x) = .ok (canonFC x) := fc_roundtrip' c x hok hb

theorem fc_remarshal_fixed (c : Codec) (x : FC) (hok : okFC x = true)
    (hr : (x.features.getD []).all (fun f => match f with | some f => noNilRing f.geom | none => true) = true) :
    fcDoc c (canonFC x) = fcDoc c x := fc_remarshal' c x hok hr

/-! ### C05 (GeoJSON share): the decoders on arbitrary documents -/

/-- no geometry decoder panics, whatever the document (json and bson; `UnmarshalGeometry` and
    `json.Unmarshal` into a pointer) -/
theorem geometry_total (c : Codec) (j : Json) :
    (geomOfDoc c j).isPanic = false ∧ (geomPtrOfDoc j).isPanic = false := geometry_total' c j

/-- no feature decoder panics (`rawNull`: the input is exactly the bytes `null`) -/
theorem feature_total (c : Codec) (rawNull : Bool) (j : Json) : (featureOfDoc c rawNull j).isPanic = false :=
  feature_total' c rawNull j

theorem feature_ptr_total (j : Json) : (featurePtrOfDoc j).isPanic = false := feature_ptr_total' j

/-- no feature-collection decoder panics -/
theorem fc_total (c : Codec) (rawNull : Bool) (j : Json) : (fcOfDoc c rawNull j).isPanic = false :=
  fc_total' c rawNull j

theorem fc_ptr_total (j : Json) : (fcPtrOfDoc j).isPanic = false := fc_ptr_total' j

/-- the former crash witnesses are now errors / the null feature -/
theorem null_member_rejected (c : Codec) : geomOfDoc c nullMemberDoc = .err .invalid := null_member_rejected' c

theorem feature_null_member_rejected (c : Codec) :
    featureOfDoc c false (.obj [("type", .str "Feature"), ("geometry", nullMemberDoc)]) = .err .invalid :=
  feature_null_member_rejected' c

theorem feature_padded_null : (featureOfDoc .json false .null).isOk = true := feature_padded_null'

/-! ### non-vacuity -/

/-- a nested collection with a ring, a bound and a negative zero satisfies the quantifier, and its
    document is the expected one -/
example :
    let g : G := .collection [.point ⟨0x8000000000000000, 0x3ff0000000000000⟩,
      .collection [.ring [⟨0, 0⟩, ⟨0x3ff0000000000000, 0⟩, ⟨0, 0⟩]], .bound ⟨0, 0⟩ ⟨0x4000000000000000, 0x4000000000000000⟩]
    okG g = true ∧ isEmptyColl g = false ∧ nonEmptyMulti g = true ∧
      geomOfDoc .json (geomDoc .json (.val g)) = .ok (.val (canonG g)) := by
  refine ⟨by decide, by decide, by decide, ?_⟩
  exact geom_roundtrip .json _ (by decide) (Or.inl rfl) (by decide)

/-- a feature with a numeric id, nested properties and a bbox satisfies `okFeature` -/
example :
    okFeature {
      id := some (.num 0x4014000000000000)
      bbox := some [0, 0, 0x3ff0000000000000, 0x3ff0000000000000]
      geom := .val (.multiPoint [⟨0, 0⟩])
      props := some [("a", .arr [.null, .bool true]), ("b", .obj [("x", .str "y"), ("z", .num 0)])] } = true := by
  decide

example :
    okFC { features := some [some { geom := .val (.point ⟨0, 0⟩) }], extra := some [("name", .str "x")] } = true := by
  decide

end Orb.GeoJSON
