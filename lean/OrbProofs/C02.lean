/-
  C02 — GeoJSON (JSON and BSON) round-trips geometry, feature, collection;
  and the GeoJSON share of C05 (the decoders on arbitrary documents).
  PROPERTY THEOREMS about the model `Orb.GeoJSON` (geojson/geometry.go, feature.go,
  feature_collection.go, bbox.go) at the level of the document tree `Json`.

  The reflection-driven serialisers (encoding/json, mongo-driver bson) are trusted: text ⇄ tree is
  not modelled; the correspondence run compares the trees Go writes with `geomDoc` / `featureDoc` /
  `fcDoc`, and Go's decode outcomes with `geomOfDoc` / `featureOfDoc` / `fcOfDoc`.

  Quantifier.  `okG g`: every coordinate finite and no collection has an EMPTY collection as a
  member; `okFeature`: id ∈ {absent, string, number}, finite bbox, properties a Go map of
  JSON-representable values (`okMembers`: finite numbers, keys strictly increasing = the map written
  key-sorted); `okFC`: such features, foreign members not named type / bbox / features.  For bson
  additionally `nonEmptyMulti` (`okVB`, `okFeatureB`, `okFCB`): no multi-geometry of length 0.
  Where the code falls short of the property the full statement stays visible as a
  `def …_full : Prop` with its refutation next to it.

  Totality (C05 share).  The model has an explicit `.panic` outcome at every place where the Go code
  dereferences a pointer that a decode can leave nil or indexes a slice (`memberGeometry`,
  `featureFinishPtr`, `derefGeometry`, `derefCoords`, `bboxAt`); the check the Go code makes before it
  is a separate `if` in the calling function.  `geometry_total` … `fc_ptr_total`, `bbox_bound_total`
  therefore state that each check covers its dereference (`members_check_needed`,
  `feature_check_needed`, `typed_check_needed`, `bbox_check_needed` show the panic behind it).
-/
import OrbProofs.C02Lemmas
import OrbProofs.C02FC
import OrbProofs.C02Total
import OrbProofs.C02Typed
import OrbProofs.C02Nil
import OrbProofs.C02Recv
import OrbProofs.C02Hook

namespace Orb.GeoJSON

/-! ### geometry -/

/-- `UnmarshalGeometry(NewGeometry(g).MarshalJSON())` resp. the bson pair: the canonical value
    (ring and bound as the one-ring polygon, members likewise), bit-identical coordinates. -/
theorem geom_roundtrip (c : Codec) (g : G) (hok : okG g = true) (hb : c = .json ∨ nonEmptyMulti g = true)
    (hne : isEmptyColl g = false) : geomOfDoc c (geomDoc c (.val g)) = .ok (.val (canonG g)) :=
  geom_roundtrip' c g hok hb hne

/-- `json.Unmarshal` into a `*Geometry` pointer, for every top-level Go value: an empty (or nil)
    collection comes back as the null geometry, a typed nil slice as itself. -/
theorem geom_roundtrip_ptr (v : V) (hok : okV v = true) :
    geomPtrOfDoc (geomDoc .json v) = .ok (canonV v) := geom_roundtrip_ptr' v hok

/-- The full statement of the property's geometry clause for the `UnmarshalGeometry` entry point:
    every geometry with finite coordinates, nested collections included. -/
def geom_roundtrip_full : Prop :=
  ∀ g : G, finiteG g = true → geomOfDoc .json (geomDoc .json (.val g)) = .ok (canonV (.val g))

/-- … which is FALSE: (a) a collection with an empty collection as a member is written as
    `"geometries":[null]`, which the decoder rejects (invalid geometry);
    (b) a top-level empty collection is written as `null`, which `UnmarshalGeometry` rejects. -/
theorem geom_roundtrip_full_false : ¬ geom_roundtrip_full := geom_roundtrip_full_false'

theorem nested_empty_collection_rejected (c : Codec) :
    geomDoc c (.val (.collection [.collection []])) = nullMemberDoc ∧
    geomOfDoc c nullMemberDoc = .err .invalid := ⟨nested_empty_doc' c, null_member_rejected' c⟩

theorem empty_collection_rejected :
    geomOfDoc .json (geomDoc .json (.val (.collection []))) = .err .invalid := empty_collection_rejected'

/-- bson: `omitempty` drops the coordinates of an empty multi-geometry and the decoder then fails. -/
theorem bson_empty_coordinates_false :
    geomDoc .bson (.val (.multiPoint [])) = .obj [("type", .str "MultiPoint")] ∧
    geomOfDoc .bson (geomDoc .bson (.val (.multiPoint []))) = .err .json := bson_empty_coordinates'

/-- RFC 7946 shape: "type" names the kind, "coordinates" is nested exactly depth(kind) ∈
    {1,2,2,3,3,4} deep, collections use "geometries" (recursively). -/
theorem doc_wellformed (c : Codec) (g : G) (hok : okG g = true) (hb : c = .json ∨ nonEmptyMulti g = true)
    (hne : isEmptyColl g = false) : wellformed (geomDoc c (.val g)) = true := by
  rw [geomDoc_val c g hne]; exact doc_wellformed' c g hok hb hne

/-- marshalling the decoded value again gives the same document (byte-identical JSON, the
    serialiser being deterministic) -/
theorem remarshal_fixed (v : V) (hok : okV v = true) (hr : noNilRing v = true) :
    ∃ w, geomPtrOfDoc (geomDoc .json v) = .ok w ∧ geomDoc .json w = geomDoc .json v :=
  ⟨canonV v, geom_roundtrip_ptr' v hok, remarshal_geom' .json v (noNilRing_ne v hr)⟩

theorem remarshal_fixed_bson (g : G) (hok : okG g = true) (hb : nonEmptyMulti g = true)
    (hne : isEmptyColl g = false) :
    ∃ w, geomOfDoc .bson (geomDoc .bson (.val g)) = .ok w ∧ geomDoc .bson w = geomDoc .bson (.val g) :=
  ⟨.val (canonG g), geom_roundtrip' .bson g hok (Or.inr hb) hne, by
    have := remarshal_geom' .bson (.val g) (by simp)
    cases g with
    | collection gs => cases gs with
      | nil => simp [isEmptyColl] at hne
      | cons _ _ => exact this
    | _ => exact this⟩

/-! ### feature -/

/-- same id, bbox, properties (empty ↦ nil), geometry (canonical; empty collection ↦ nil) -/
theorem feature_roundtrip (c : Codec) (f : Feature) (hok : okFeature f = true)
    (hb : c = .json ∨ okFeatureB f = true) :
    featureOfDoc c false (featureDoc c f) = .ok (canonF f) := feature_roundtrip' c f hok hb

theorem feature_remarshal_fixed (c : Codec) (f : Feature) (hok : okFeature f = true)
    (hr : noNilRing f.geom = true) : featureDoc c (canonF f) = featureDoc c f :=
  feature_remarshal' c f hok hr

/-! ### feature collection -/

/-- same bbox, features (each canonical), foreign members (none ↦ nil map) -/
theorem fc_roundtrip (c : Codec) (x : FC) (hok : okFC x = true) (hb : c = .json ∨ okFCB x = true) :
    fcOfDoc c false (fcDoc c x) = .ok (canonFC x) := fc_roundtrip' c x hok hb

theorem fc_remarshal_fixed (c : Codec) (x : FC) (hok : okFC x = true)
    (hr : (x.features.getD []).all (fun f => match f with | some f => noNilRing f.geom | none => true) = true) :
    fcDoc c (canonFC x) = fcDoc c x := fc_remarshal' c x hok hr

/-! ### C05 (GeoJSON share): the decoders on arbitrary documents -/

/-- no geometry decoder panics, whatever the document (json and bson; `UnmarshalGeometry` and
    `json.Unmarshal` into a pointer) -/
theorem geometry_total (c : Codec) (j : Json) :
    (geomOfDoc c j).isPanic = false ∧ (geomPtrOfDoc j).isPanic = false := geometry_total' c j

/-- no feature decoder panics (`rawNull`: the input is exactly the bytes `null`) -/
theorem feature_total (c : Codec) (rawNull : Bool) (j : Json) : (featureOfDoc c rawNull j).isPanic = false :=
  feature_total' c rawNull j

theorem feature_ptr_total (j : Json) : (featurePtrOfDoc j).isPanic = false := feature_ptr_total' j

/-- no feature-collection decoder panics -/
theorem fc_total (c : Codec) (rawNull : Bool) (j : Json) : (fcOfDoc c rawNull j).isPanic = false :=
  fc_total' c rawNull j

theorem fc_ptr_total (j : Json) : (fcPtrOfDoc j).isPanic = false := fc_ptr_total' j

/-- the three checks are what the theorems above rest on: behind each stands a panic -/
theorem members_check_needed (ms : List (Option DG)) (h : hasNilMember ms = true) :
    (membersGeometry ms).isPanic = true := membersGeometry_nil_panics ms h

theorem feature_check_needed : (featureFinishPtr none).isPanic = true := featureFinishPtr_nil_panics

theorem typed_check_needed : (derefCoords none).isPanic = true := derefCoords_nil_panics

/-- no typed helper decoder (`geojson.Point` … `geojson.MultiPolygon`; `k` ranges over their six
    kinds) panics, whatever the document.  Was FALSE on the pinned tree (JSON `null`: nil
    `*Geometry` dereferenced) until the `g == nil` check. -/
theorem typed_total (c : Codec) (k : Kind) (j : Json) : (typedOfDoc c k j).isPanic = false :=
  typed_total' c k j

/-- the former crash witness: JSON `null` is rejected like `UnmarshalGeometry(null)` -/
theorem typed_null_rejected (k : Kind) : typedOfDoc .json k .null = .err .invalid := typed_null_rejected' k

/-- the former crash witnesses are now errors / the null feature -/
theorem null_member_rejected (c : Codec) : geomOfDoc c nullMemberDoc = .err .invalid := null_member_rejected' c

theorem feature_null_member_rejected (c : Codec) :
    featureOfDoc c false (.obj [("type", .str "Feature"), ("geometry", nullMemberDoc)]) = .err .invalid :=
  feature_null_member_rejected' c

theorem feature_padded_null : (featureOfDoc .json false .null).isOk = true := feature_padded_null'

/-! ### typed helper types, the decoded `Type` field, bbox.go -/

/-- `geojson.K(x)` round-trips through its own type and is rejected by the five others -/
theorem typed_roundtrip (c : Codec) (g : G) (k : Kind) (hk : typedKind g = true) (hok : okG g = true)
    (hb : c = .json ∨ nonEmptyMulti g = true) :
    typedOfDoc c k (geomDoc c (.val g)) = if g.kind = k then .ok (.val g) else .err .notType :=
  typed_roundtrip' c g k hk hok hb

/-- the decoded `Geometry.Type` names the kind the value comes back as, which is the "type"
    member of the document -/
theorem decoded_type (c : Codec) (g : G) (hok : okG g = true) (hb : c = .json ∨ nonEmptyMulti g = true)
    (hne : isEmptyColl g = false) :
    typeOfV (.val (canonG g)) = kindName g.kind ∧
    ∃ ms, geomDoc c (.val g) = .obj (("type", .str (kindName g.kind)) :: ms) :=
  ⟨decoded_type' g, doc_type_member c g hok hb hne⟩

/-- `BBox.Bound()` never panics: `Valid()` covers its four index expressions … -/
theorem bbox_bound_total (bb : Option (List UInt64)) : (bboxBound bb).isPanic = false := bboxBound_total' bb

/-- … each of which panics beyond the length -/
theorem bbox_check_needed (l : List UInt64) (i : Nat) (h : l.length ≤ i) : (bboxAt l i).isPanic = true :=
  bboxAt_beyond l i h

/-- `NewBBox(b)` is valid and `NewBBox(b).Bound() = b` (bit-identical); an invalid bbox gives the
    zero bound -/
theorem bbox_roundtrip (a b : Pt UInt64) :
    bboxValid (some (newBBox a b)) = true ∧ bboxBound (some (newBBox a b)) = .ok (a, b) := bbox_newBBox' a b

theorem bbox_invalid_zero (bb : Option (List UInt64)) (h : bboxValid bb = false) :
    bboxBound bb = .ok (⟨0, 0⟩, ⟨0, 0⟩) := bbox_invalid_zero' bb h

/-! ### values with nil members (`orb.Polygon{nil}`, `orb.Collection{orb.MultiPoint(nil)}`, …) -/

/-- on a value without nil members the marshalling model with nil-ness (`geomDocN`, the one the
    correspondence run uses) is `geomDoc`: the theorems above speak about it -/
theorem geomDocN_nilfree (c : Codec) (v : V) (hv : okV v = true) :
    geomDocN c (CoreNil.ofGVal v) = geomDoc c v := geomDocN_ofGVal c v hv

/-- The round-trip clause over Go values WITH nil members (any nil ring / line / polygon, typed-nil
    collection members): what `NewGeometry(v)` wrote — `null`s included — decodes (json and bson) to
    a value denoting the canonical geometry of `v` read with its nil slices as empty ones.
    (`toGeom` forgets the nil-ness of the decoded TOP-LEVEL slice: `"coordinates":null` comes back
    as a typed nil.) -/
theorem geom_roundtrip_nil (c : Codec) (n : NG) (hok : okG (forgetNil n) = true)
    (hb : c = .json ∨ nonEmptyMulti (forgetNil n) = true) (hne : isEmptyColl (forgetNil n) = false) :
    ∃ v, geomOfDoc c (geomDocN c n) = .ok v ∧ v.toGeom = canonG (forgetNil n) :=
  geom_roundtrip_nil' c n hok hb hne

/-- The shape clause over Go values WITH nil members: every such polygon / multi line string /
    multi polygon / collection with finite coordinates marshals to an RFC 7946 shaped document … -/
def doc_wellformed_nil_full : Prop :=
  ∀ n : NG, hasNilIfaceMember n = false → okG (forgetNil n) = true → isEmptyColl (forgetNil n) = false →
    wellformed (geomDocN .json n) = true

/-- … which is FALSE: a nil ring (line, polygon) is written as `null` inside "coordinates", a typed-nil
    member of a collection as `"coordinates":null`.  The value still round-trips (nil read as
    empty), and the same value without nil-ness is written well-formed.
    Known finding C02-nil-member-null. -/
theorem doc_wellformed_nil_full_false : ¬ doc_wellformed_nil_full := by
  intro h
  have := h (.polygon (some [none])) (by decide) (by decide) (by decide)
  rw [(nil_ring_doc' .json).2.1] at this
  cases this

theorem nil_ring_doc (c : Codec) :
    geomDocN c (.polygon (some [none])) = .obj [("type", .str "Polygon"), ("coordinates", .arr [.null])] ∧
    wellformed (geomDocN c (.polygon (some [none]))) = false ∧
    geomOfDoc c (geomDocN c (.polygon (some [none]))) = .ok (.val (.polygon [[]])) ∧
    wellformed (geomDoc c (.val (forgetNil (.polygon (some [none]))))) = true := nil_ring_doc' c

theorem nil_member_doc :
    geomDocN .json (.collection [.multiPoint none]) =
      .obj [("type", .str "GeometryCollection"),
        ("geometries", .arr [.obj [("type", .str "MultiPoint"), ("coordinates", .null)]])] ∧
    wellformed (geomDocN .json (.collection [.multiPoint none])) = false ∧
    geomOfDoc .json (geomDocN .json (.collection [.multiPoint none])) = .ok (.val (.collection [.multiPoint []])) :=
  nil_member_doc'


/-! ### hand-built `geojson.Geometry` values (`Orb.GeoJSONExt`)

`newGeometryMarshallDoc` converts rings, bounds and collections a SECOND time, for `Geometry` values
whose fields were set directly (the typed helper types do it; `&geojson.Geometry{Coordinates: b}`).
These are the statements about that second copy. -/

/-- a hand-built value holding one geometry in `Coordinates` writes what `NewGeometry` writes (every
    kind but the collection without members, which `NewGeometry` writes as `null`) -/
theorem hand_doc_eq (c : Codec) (ty : String) (n : NG) (h1 : n.isNilIface = false)
    (h2 : emptyCollCoords n = false) : hgMember c (.mk ty n []) = geomMemberN c n := hand_doc_eq' c ty n h1 h2

/-- "ring and bound as the equivalent polygon", for the hand-built path: five positions in ONE ring,
    nested three deep -/
theorem hand_bound_doc (c : Codec) (ty : String) (a b : Pt UInt64) :
    hgMember c (.mk ty (.bound a b) []) =
      .obj [("type", .str "Polygon"), ("coordinates", .arr [ptsJ (boundRing a b)])] ∧
    wellformed (hgMember c (.mk ty (.bound a b) [])) = true := hand_bound_doc' c ty a b

theorem hand_ring_doc (c : Codec) (ty : String) (ps : List (Pt UInt64)) :
    hgMember c (.mk ty (.ring (some ps)) []) =
      .obj [("type", .str "Polygon"), ("coordinates", .arr [ptsJ ps])] := hand_ring_doc' c ty ps

/-- the value's `Type` string is not what is written -/
theorem hand_type_ignored (c : Codec) (ty ty' : String) (n : NG) (gs : List HG) :
    hgMember c (.mk ty n gs) = hgMember c (.mk ty' n gs) := hand_type_ignored' c ty ty' n gs

/-- the round-trip clause for `json.Marshal(&geojson.Geometry{Coordinates: x})` / `bson.Marshal(…)` -/
theorem hand_roundtrip (c : Codec) (ty : String) (n : NG) (hok : okG (forgetNil n) = true)
    (hb : c = .json ∨ nonEmptyMulti (forgetNil n) = true) (hne : isEmptyColl (forgetNil n) = false) :
    ∃ v, geomOfDoc c (hgTop c (.mk ty n [])) = .ok v ∧ v.toGeom = canonG (forgetNil n) :=
  hand_roundtrip' c ty n hok hb hne

/-! ### receivers: "the decode is a function of the document" -/

/-- a new `Geometry` receiver observes what `geomOfDoc` says -/
theorem geomInto_fresh (c : Codec) (j : Json) : (geomInto c {} j).map (·.geometry) = geomOfDoc c j :=
  geomInto_fresh' c j

/-- `(*Geometry).UnmarshalJSON/BSON` into a receiver with an earlier value: exactly as into a new one
    when the field of the OTHER switch arm is nil -/
theorem geom_receiver_same_arm (old : GRecv) (d : DG) (h1 : d.isColl = false → old.geoms = none)
    (h2 : d.isColl = true → old.coords = none) : old.assign d = ({} : GRecv).assign d :=
  geom_receiver_same_arm' old d h1 h2

theorem geom_receiver_clean (c : Codec) (old : GRecv) (j : Json) (hc : old.coords = none)
    (hg : old.geoms = none) : geomInto c old j = geomInto c {} j := geom_receiver_clean' c old j hc hg

/-- the full statement (`geom_receiver_history_full`, OrbProofs/C02Recv.lean) holds since fix C02-3
    (before: known finding C02-geometry-receiver-reuse) -/
theorem geom_receiver_history : geom_receiver_history_full := geom_receiver_history_full_true'

/-- `Feature`, `FeatureCollection`, the six typed helpers: every success path assigns the whole value -/
theorem feature_receiver_history (c : Codec) (rawNull : Bool) (old old' : Feature) (j : Json)
    (h : (featureOfDoc c rawNull j).isOk = true) :
    featureInto c rawNull old j = featureInto c rawNull old' j := feature_receiver_history' c rawNull old old' j h

theorem fc_receiver_history (c : Codec) (rawNull : Bool) (old old' : FC) (j : Json) :
    fcInto c rawNull old j = fcInto c rawNull old' j := fc_receiver_history' c rawNull old old' j

theorem typed_receiver_history (c : Codec) (k : Kind) (old old' : V) (j : Json)
    (h : (typedOfDoc c k j).isOk = true) : typedInto c k old j = typedInto c k old' j :=
  typed_receiver_history' c k old old' j h

/-! ### the documented JSON hooks (`geojson.CustomJSONMarshaler` / `CustomJSONUnmarshaler`)

The correspondence run installs pass-through hooks and counts their calls per step of a case (op
`hook`); `hookMG` / `hookUG` are what the dispatch of geojson/json.go prescribes for a value. -/

/-- the marshal hook is reached exactly when something other than `null` is written (the `null`
    short cut of `Geometry.MarshalJSON` is the only path around `marshalJSON`) -/
theorem hook_marshal_reached (c : Codec) (n : NG) : hookMG n = 0 ↔ geomMemberN c n = .null :=
  hookMG_zero_iff' c n

/-- … and what was written through the marshal hook — only that — is read through the unmarshal hook -/
theorem hook_unmarshal_reached (n : NG) : hookUG n = 0 ↔ hookMG n = 0 := hookUG_zero_iff' n

/-- reading calls the hook at least as often as writing and at most twice as often -/
theorem hook_calls_bounds (n : NG) : hookMG n ≤ hookUG n ∧ hookUG n ≤ 2 * hookMG n := hookUG_bounds' n

/-- a collection of a point and a nested collection of a line: 4 marshal calls, 6 unmarshal calls -/
example :
    let n : NG := .collection [.point ⟨0, 0⟩, .collection [.lineString (some [⟨0, 0⟩])]]
    hookMG n = 4 ∧ hookUG n = 6 := by
  constructor <;> simp [hookMG, hookMGs, hookUG, hookUGs]

/-- a feature with a null geometry decoded into a receiver that holds a point: no geometry afterwards -/
example :
    (featureInto .json false { geom := .val (.point ⟨0, 0⟩) }
      (.obj [("type", .str "Feature"), ("geometry", .null), ("properties", .null)])).geom = .nilIface := by
  rfl

/-! ### non-vacuity -/

/-- a multi polygon with a nil polygon and a nil ring satisfies the hypotheses of
    `geom_roundtrip_nil`, and comes back with both read as empty -/
example :
    let n : NG := .multiPolygon (some [none, some [none, some [⟨0, 0⟩]]])
    okG (forgetNil n) = true ∧ isEmptyColl (forgetNil n) = false ∧ nonEmptyMulti (forgetNil n) = true ∧
      geomOfDoc .json (geomDocN .json n) = .ok (.val (.multiPolygon [[], [[], [⟨0, 0⟩]]])) := by
  refine ⟨by decide, by decide, by decide, rfl⟩

/-- the typed totality hypothesis is satisfiable and the theorem says something: a Point document
    decodes through `geojson.Point` and is refused by `geojson.Polygon` -/
example :
    typedOfDoc .json .point (.obj [("type", .str "Point"), ("coordinates", .arr [.num 0, .num 0])]) = .ok (.val (.point ⟨0, 0⟩)) ∧
    typedOfDoc .bson .polygon (.obj [("type", .str "Point"), ("coordinates", .arr [.num 0, .num 0])]) = .err .notType := by
  constructor <;> rfl


/-- a nested collection with a ring, a bound and a negative zero satisfies the quantifier, and its
    document is the expected one -/
example :
    let g : G := .collection [.point ⟨0x8000000000000000, 0x3ff0000000000000⟩,
      .collection [.ring [⟨0, 0⟩, ⟨0x3ff0000000000000, 0⟩, ⟨0, 0⟩]], .bound ⟨0, 0⟩ ⟨0x4000000000000000, 0x4000000000000000⟩]
    okG g = true ∧ isEmptyColl g = false ∧ nonEmptyMulti g = true ∧
      geomOfDoc .json (geomDoc .json (.val g)) = .ok (.val (canonG g)) := by
  refine ⟨by decide, by decide, by decide, ?_⟩
  exact geom_roundtrip .json _ (by decide) (Or.inl rfl) (by decide)

/-- a feature with a numeric id, nested properties and a bbox satisfies `okFeature` -/
example :
    okFeature {
      id := some (.num 0x4014000000000000)
      bbox := some [0, 0, 0x3ff0000000000000, 0x3ff0000000000000]
      geom := .val (.multiPoint [⟨0, 0⟩])
      props := some [("a", .arr [.null, .bool true]), ("b", .obj [("x", .str "y"), ("z", .num 0)])] } = true := by
  decide

example :
    okFC { features := some [some { geom := .val (.point ⟨0, 0⟩) }], extra := some [("name", .str "x")] } = true := by
  decide

end Orb.GeoJSON
