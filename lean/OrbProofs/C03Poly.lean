/-
  C03 lemmas, part 2: rings, polygons, multipolygons, bounds — ring re-closing and the
  regrouping of rings into polygons by orientation — and the combined geometry round trip.
-/
import OrbProofs.C03Line
import Mathlib.Tactic

namespace Orb.MVT
open Orb

/-- The full statement over `geomWF` alone (false: see `ring_reclose_witness'`). -/
def geometry_roundtrip_full : Prop := ∀ g, geomWF g = true → geometryRT g = .ok (normG g)

/-! ### the ClosePath word, `closed` -/

theorem closePath_cmd : (closePathW &&& 7#32).toNat = 7 := by decide
theorem closePath_cnt : (closePathW >>> 3).toNat = 1 := by decide

instance instLawfulBEqPtInt : LawfulBEq (Pt Int) where
  rfl := by
    intro a; cases a
    show instBEqPt.beq _ _ = _
    simp [instBEqPt.beq]
  eq_of_beq := by
    intro a b h; cases a; cases b
    change instBEqPt.beq _ _ = _ at h
    simp [instBEqPt.beq] at h
    simp [h]

theorem closed_iff (r : List (Pt Int)) : closed r = true ↔ 4 ≤ r.length ∧ r.head? = r.getLast? := by
  unfold closed; simp

/-- A closed ring is `p :: rest` with `rest ≠ []`, and re-appending `p` to `dropLast` gives it back. -/
theorem closed_cons {r : List (Pt Int)} (h : closed r = true) :
    ∃ p rest, r = p :: rest ∧ rest ≠ [] ∧ r.dropLast = p :: rest.dropLast ∧ r.dropLast ++ [p] = r := by
  rw [closed_iff] at h
  obtain ⟨h4, he⟩ := h
  match r, h4, he with
  | p :: q :: rest, _, he =>
    refine ⟨p, q :: rest, rfl, by simp, by simp, ?_⟩
    have hne : (p :: q :: rest) ≠ [] := by simp
    rw [List.getLast?_eq_some_getLast hne] at he
    simp only [List.head?_cons, Option.some.injEq] at he
    have := List.dropLast_concat_getLast hne
    rw [← he] at this
    exact this

/-- A closed ring is written as the line of all but its last vertex, then ClosePath. -/
theorem encRing_closed (c : Cur) {r : List (Pt Int)} (h : closed r = true) :
    ∃ c' wl, encLine c r.dropLast = .ok (c', wl) ∧ encRing c r = .ok (c', wl ++ [closePathW]) := by
  obtain ⟨p, rest, rfl, hne, hdl, _⟩ := closed_cons h
  rw [hdl]
  simp only [encRing, encLine, h, if_true]
  exact ⟨_, _, rfl, rfl⟩

theorem ringOK_closed {r : List (Pt Int)} (h : ringOK r = true) : closed r = true := by
  simp only [ringOK, Bool.and_eq_true] at h
  exact h.1.1.1

theorem lineOK_dropLast {r : List (Pt Int)} (h : ringOK r = true) : lineOK r.dropLast = true := by
  have hc := ringOK_closed h
  simp only [ringOK, Bool.and_eq_true, decide_eq_true_eq] at h
  obtain ⟨⟨_, hall⟩, hlen⟩ := h
  obtain ⟨p, rest, rfl, hne, hdl, _⟩ := closed_cons hc
  simp only [lineOK, Bool.and_eq_true, decide_eq_true_eq]
  refine ⟨⟨by rw [hdl]; simp, ?_⟩, ?_⟩
  · rw [List.all_eq_true] at hall ⊢
    intro x hx
    exact hall x (List.mem_of_mem_dropLast hx)
  · simp only [List.length_dropLast]; omega

/-- The words of a line are at least the MoveTo word. -/
theorem encLine_words_ne_nil {c c' : Cur} {l : List (Pt Int)} {ws : List W} (hl : l ≠ [])
    (h : encLine c l = .ok (c', ws)) : ws ≠ [] := by
  cases l with
  | nil => exact absurd rfl hl
  | cons p rest =>
    simp only [encLine, moveTo, Res.ok.injEq, Prod.mk.injEq] at h
    rw [← h.2]; simp

/-! ### one ring -/

/-- `decodeLine`, then `cmdAndCount` on the ClosePath word, read back a ring of the quantifier
    without its closing vertex (which the decoder then re-appends), and stay in step. -/
theorem decode_ring (c c' : Cur) (s : GD) (r : List (Pt Int)) (ws rest : List W)
    (hs : InStep c s) (hr : ringOK r = true) (hd : ringNoDupClose r = true)
    (he : encRing c r = .ok (c', ws)) (hw : s.ws = ws ++ rest) :
    ∃ s1 s2 p t, decodeLine s = (.ok (p :: t), s1) ∧ cmdAndCount s1 = (.ok (7, 1), s2) ∧
      closed (p :: t) = false ∧ (p :: t) ++ [p] = r ∧
      InStep c' s2 ∧ s2.ws = rest ∧ s2.count = s.count ∧ 2 ≤ ws.length := by
  have hc := ringOK_closed hr
  obtain ⟨c1, wl, hel, her⟩ := encRing_closed c hc
  rw [her] at he
  simp only [Res.ok.injEq, Prod.mk.injEq] at he
  obtain ⟨rfl, rfl⟩ := he
  obtain ⟨p, rest', hreq, hne, hdl, hre⟩ := closed_cons hc
  obtain ⟨s1, hdec, hin, hws, hcnt⟩ :=
    decodeLine_encLine c c1 s _ wl (closePathW :: rest) hs (lineOK_dropLast hr) hel (by rw [hw]; simp)
  have hnd : closed r.dropLast = false := by
    simpa [ringNoDupClose] using hd
  refine ⟨s1, { s1 with ws := rest, used := s1.used + 1 }, p, rest'.dropLast, ?_, ?_, ?_, ?_, ?_, rfl, hcnt, ?_⟩
  · rw [← hdl]; exact hdec
  · unfold cmdAndCount
    rw [hws]
    simp only [closePath_cmd, closePath_cnt, cClosePath, ne_eq, not_true_eq_false, false_and, if_false]
  · rw [← hdl]; exact hnd
  · rw [← hdl]; exact hre
  · obtain ⟨hx, hy, hp, hu⟩ := hin
    refine ⟨hx, hy, hp, ?_⟩
    rw [hws] at hu
    simp only [List.length_cons] at hu
    show s1.used + 1 + rest.length = s1.count
    omega
  · have := encLine_words_ne_nil (by rw [hdl]; simp) hel
    have : 1 ≤ wl.length := List.length_pos_iff.mpr this
    simp only [List.length_append, List.length_singleton]; omega

/-! ### the grouping loop -/

/-- What one iteration of `decodePolygon` does with a decoded ring. -/
def grpStep (st : List (List (List (Pt Int))) × List (List (Pt Int))) (r : List (Pt Int)) :
    List (List (List (Pt Int))) × List (List (Pt Int)) :=
  if st.1.isEmpty && st.2.isEmpty then (st.1, st.2 ++ [r])
  else if oriInt r = 1 then (st.1 ++ [st.2], [r]) else (st.1, st.2 ++ [r])

/-- The value `decodePolygon` returns from its final state. -/
def grpFin (st : List (List (List (Pt Int))) × List (List (Pt Int))) : Geom Int :=
  if st.1.isEmpty then .polygon st.2 else .multiPolygon (st.1 ++ [st.2])

theorem pgLoop_done (ori : List (Pt Int) → Int) (f : Nat) (mp : List (List (List (Pt Int)))) (p : List (List (Pt Int))) (s : GD)
    (h : s.ws = []) : pgLoop ori f mp p s = (.ok (grpFin (mp, p)), s) := by
  cases f <;> simp [pgLoop, GD.done, h, grpFin] <;> split <;> rfl

theorem encRings_cons_ok {c c' : Cur} {r : List (Pt Int)} {rs : List (List (Pt Int))} {ws : List W}
    (h : encRings c (r :: rs) = .ok (c', ws)) :
    ∃ c1 w1 w2, encRing c r = .ok (c1, w1) ∧ encRings c1 rs = .ok (c', w2) ∧ ws = w1 ++ w2 := by
  simp only [encRings] at h
  split at h
  · rename_i c1 w1 h1
    split at h
    · rename_i c2 w2 h2
      simp only [Res.ok.injEq, Prod.mk.injEq] at h
      obtain ⟨rfl, rfl⟩ := h
      exact ⟨c1, w1, w2, h1, h2, rfl⟩
    · cases h
    · cases h
  · cases h
  · cases h

/-- `decodePolygon`'s loop on the words of `encRings` ends in the folded grouping state. -/
theorem pgLoop_encRings (ori : List (Pt Int) → Int) : ∀ (rings : List (List (Pt Int))) (c c' : Cur) (ws : List W) (s : GD) (fuel : Nat)
    (mp : List (List (List (Pt Int)))) (p : List (List (Pt Int))),
    InStep c s → (∀ r ∈ rings, ringOK r = true ∧ ringNoDupClose r = true) →
    (∀ r ∈ rings, ori r = oriInt r) →
    encRings c rings = .ok (c', ws) → s.ws = ws → ws.length ≤ fuel →
    (pgLoop ori fuel mp p s).1 = .ok (grpFin (rings.foldl grpStep (mp, p))) := by
  intro rings
  induction rings with
  | nil =>
    intro c c' ws s fuel mp p _ _ _ he hw _
    simp only [encRings, Res.ok.injEq, Prod.mk.injEq] at he
    rw [pgLoop_done _ _ _ _ _ (by rw [hw, ← he.2])]
    rfl
  | cons r rs ih =>
    intro c c' ws s fuel mp p hs hall hori he hw hf
    have hor : ori r = oriInt r := hori r (by simp)
    obtain ⟨c1, w1, w2, h1, h2, rfl⟩ := encRings_cons_ok he
    have hr := hall r (by simp)
    obtain ⟨s1, s2, q, t, hdec, hcmd, hncl, hreq, hin2, hws2, hcnt2, hlen⟩ :=
      decode_ring c c1 s r w1 w2 hs hr.1 hr.2 h1 hw
    cases fuel with
    | zero => simp only [List.length_append] at hf; omega
    | succ f =>
      have hnd : s.done = false := by
        simp only [GD.done, hw]
        cases w1 with
        | nil => simp at hlen
        | cons _ _ => rfl
      have hstep : pgLoop ori (f + 1) mp p s =
          pgLoop ori f (grpStep (mp, p) r).1 (grpStep (mp, p) r).2 s2 := by
        rw [pgLoop]
        simp only [hnd, Bool.false_eq_true, if_false, hdec, bindD, hcmd]
        simp only [hncl, cClosePath, and_self, if_true, hreq, grpStep, hor]
        split <;> [skip; split] <;> rfl
      rw [hstep, List.foldl_cons]
      apply ih c1 c' w2 s2 f _ _ hin2 (fun x hx => hall x (by simp [hx]))
        (fun x hx => hori x (by simp [hx])) h2 hws2
      simp only [List.length_append] at hf; omega

/-! ### regrouping by orientation -/

theorem grp_holes (mp : List (List (List (Pt Int)))) : ∀ (hs p : List (List (Pt Int))), p ≠ [] →
    (∀ r ∈ hs, oriInt r ≠ 1) → hs.foldl grpStep (mp, p) = (mp, p ++ hs) := by
  intro hs
  induction hs with
  | nil => intro p _ _; simp
  | cons h hs ih =>
    intro p hp hall
    have h1 : grpStep (mp, p) h = (mp, p ++ [h]) := by
      have := hall h (by simp)
      simp [grpStep, hp, this]
    rw [List.foldl_cons, h1, ih (p ++ [h]) (by simp) (fun r hr => hall r (by simp [hr]))]
    simp

theorem polyOK_cons {q : List (List (Pt Int))} (h : polyOK q = true) :
    ∃ o hs, q = o :: hs ∧ oriInt o = 1 ∧ ∀ r ∈ hs, oriInt r ≠ 1 := by
  cases q with
  | nil => simp [polyOK] at h
  | cons o hs =>
    simp only [polyOK, Bool.and_eq_true, beq_iff_eq, List.all_eq_true] at h
    refine ⟨o, hs, rfl, h.1.2, ?_⟩
    intro r hr
    have := (h.2 r hr).2
    omega

theorem grp_poly_first {q : List (List (Pt Int))} (hq : polyOK q = true) :
    q.foldl grpStep ([], []) = ([], q) := by
  obtain ⟨o, hs, rfl, _, hh⟩ := polyOK_cons hq
  rw [List.foldl_cons]
  have : grpStep ([], []) o = ([], [o]) := by simp [grpStep]
  rw [this, grp_holes [] hs [o] (by simp) hh]
  simp

theorem grp_poly_next (mp : List (List (List (Pt Int)))) (p : List (List (Pt Int))) (hp : p ≠ [])
    {q : List (List (Pt Int))} (hq : polyOK q = true) :
    q.foldl grpStep (mp, p) = (mp ++ [p], q) := by
  obtain ⟨o, hs, rfl, ho, hh⟩ := polyOK_cons hq
  rw [List.foldl_cons]
  have : grpStep (mp, p) o = (mp ++ [p], [o]) := by simp [grpStep, hp, ho]
  rw [this, grp_holes _ hs [o] (by simp) hh]
  simp

theorem polyOK_ne_nil {q : List (List (Pt Int))} (h : polyOK q = true) : q ≠ [] := by
  obtain ⟨o, hs, rfl, _⟩ := polyOK_cons h
  simp

theorem grp_polys : ∀ (ps : List (List (List (Pt Int)))) (mp : List (List (List (Pt Int))))
    (p : List (List (Pt Int))), p ≠ [] → (∀ q ∈ ps, polyOK q = true) →
    (ps.flatten.foldl grpStep (mp, p)).1 ++ [(ps.flatten.foldl grpStep (mp, p)).2] = mp ++ [p] ++ ps := by
  intro ps
  induction ps with
  | nil => intro mp p _ _; simp
  | cons q qs ih =>
    intro mp p hp hall
    have hq := hall q (by simp)
    rw [List.flatten_cons, List.foldl_append, grp_poly_next mp p hp hq,
      ih _ _ (polyOK_ne_nil hq) (fun x hx => hall x (by simp [hx]))]
    simp

/-- The grouping loop regroups the rings of well-formed polygons into those polygons. -/
theorem grpFin_polys (q : List (List (Pt Int))) (qs : List (List (List (Pt Int))))
    (hall : ∀ x ∈ q :: qs, polyOK x = true) :
    grpFin ((q :: qs).flatten.foldl grpStep ([], [])) = normG (.multiPolygon (q :: qs)) := by
  have hq := hall q (by simp)
  rw [List.flatten_cons, List.foldl_append, grp_poly_first hq]
  cases qs with
  | nil => simp [grpFin, normG]
  | cons q2 qs' =>
    have h := grp_polys (q2 :: qs') [] q (polyOK_ne_nil hq) (fun x hx => hall x (by simp [hx]))
    generalize (q2 :: qs').flatten.foldl grpStep ([], q) = st at h
    have hne : st.1 ≠ [] := by
      intro h0
      have := congrArg List.length h
      simp [h0] at this
    simp only [grpFin, normG]
    cases h1 : st.1 with
    | nil => exact absurd h1 hne
    | cons a b =>
      rw [h1] at h
      simp only [List.isEmpty_cons, Bool.false_eq_true, if_false]
      rw [h]; simp

/-! ### `encPolys` is `encRings` of the flattened list -/

theorem encRings_append (a b : List (List (Pt Int))) : ∀ (c : Cur),
    encRings c (a ++ b) =
      match encRings c a with
      | .ok (c1, w1) =>
        (match encRings c1 b with
         | .ok (c2, w2) => .ok (c2, w1 ++ w2)
         | .err e => .err e
         | .panic s => .panic s)
      | .err e => .err e
      | .panic s => .panic s := by
  induction a with
  | nil =>
    intro c
    simp only [List.nil_append, encRings]
    cases h : encRings c b with
    | ok x => cases x; simp
    | err e => rfl
    | panic s => rfl
  | cons r rs ih =>
    intro c
    simp only [List.cons_append, encRings]
    cases h1 : encRing c r with
    | ok x =>
      obtain ⟨c1, w1⟩ := x
      simp only [ih c1]
      cases h2 : encRings c1 rs with
      | ok y =>
        obtain ⟨c2, w2⟩ := y
        simp only
        cases h3 : encRings c2 b with
        | ok z => obtain ⟨c3, w3⟩ := z; simp
        | err e => rfl
        | panic s => rfl
      | err e => rfl
      | panic s => rfl
    | err e => rfl
    | panic s => rfl

theorem encPolys_eq_flatten : ∀ (ps : List (List (List (Pt Int)))) (c : Cur),
    encPolys c ps = encRings c ps.flatten := by
  intro ps
  induction ps with
  | nil => intro c; rfl
  | cons p ps ih =>
    intro c
    simp only [encPolys, List.flatten_cons, encRings_append]
    cases h1 : encRings c p with
    | ok x =>
      obtain ⟨c1, w1⟩ := x
      simp only [ih c1]
      cases h2 : encRings c1 ps.flatten with
      | ok y => rfl
      | err e => rfl
      | panic s => rfl
    | err e => rfl
    | panic s => rfl

theorem encRings_ok : ∀ (rings : List (List (Pt Int))) (c : Cur), (∀ r ∈ rings, r ≠ []) →
    ∃ c' ws, encRings c rings = .ok (c', ws) := by
  intro rings
  induction rings with
  | nil => intro c _; exact ⟨_, _, rfl⟩
  | cons r rs ih =>
    intro c hall
    have hr := hall r (by simp)
    cases r with
    | nil => exact absurd rfl hr
    | cons p rest =>
      simp only [encRings, encRing]
      obtain ⟨c', ws, h⟩ := ih (lineTo (moveTo c [p]).1 (if closed (p :: rest) = true then rest.dropLast else rest)).1
        (fun x hx => hall x (by simp [hx]))
      rw [h]
      exact ⟨_, _, rfl⟩

theorem ringOK_ne_nil {r : List (Pt Int)} (h : ringOK r = true) : r ≠ [] := by
  obtain ⟨p, rest, rfl, _⟩ := closed_cons (ringOK_closed h)
  simp

/-! ### the polygon kinds from the initial decoder state -/

-- `i32_zero` comes from C03Line.

/-- A non-empty list of rings of the quantifier decodes to the grouping of those rings. -/
theorem decode_rings (ori : List (Pt Int) → Int) (rings : List (List (Pt Int))) (hne : rings ≠ [])
    (hall : ∀ r ∈ rings, ringOK r = true ∧ ringNoDupClose r = true)
    (hori : ∀ r ∈ rings, ori r = oriInt r) (a : Nat) :
    ∃ c' ws, encRings cur0 rings = .ok (c', ws) ∧ ws ≠ [] ∧
      (decodeGeometryIter ori tPolygon ws a).1 = .ok (grpFin (rings.foldl grpStep ([], []))) := by
  obtain ⟨c', ws, he⟩ := encRings_ok rings cur0 (fun r hr => ringOK_ne_nil (hall r hr).1)
  have hin : InStep cur0 { ws := ws, count := ws.length, used := 0, prev := ⟨0, 0⟩, alloc := a } := by
    refine ⟨?_, ?_, (by decide : ptOK (⟨0, 0⟩ : Pt Int) = true), by simp⟩ <;> simp [cur0, i32_zero]
  have hlen : 2 ≤ ws.length := by
    cases rings with
    | nil => exact absurd rfl hne
    | cons r rs =>
      obtain ⟨c1, w1, w2, h1, h2, rfl⟩ := encRings_cons_ok he
      have hr := hall r (by simp)
      obtain ⟨_, _, _, _, _, _, _, _, _, _, _, hl⟩ :=
        decode_ring cur0 c1 _ r w1 w2 hin hr.1 hr.2 h1 rfl
      simp only [List.length_append]; omega
  refine ⟨c', ws, he, ?_, ?_⟩
  · intro h0; rw [h0] at hlen; simp at hlen
  · have h := pgLoop_encRings ori rings cur0 c' ws _ ws.length [] [] hin hall hori he rfl (Nat.le_refl _)
    unfold decodeGeometryIter
    simp only [show ¬ ws.length < 2 by omega, if_false, tPolygon, tPoint, tLineString, decodePolygon]
    simpa using h

/-! ### bounds -/

theorem oriInt_boundRing (a b : Pt Int) (hx : a.x < b.x) (hy : a.y < b.y) : oriInt (boundRing a b) = 1 := by
  have hpos : 0 < (b.x - a.x) * (b.y - a.y) := mul_pos (by omega) (by omega)
  have harea : Core.orientArea (boundRing a b) = 2 * ((b.x - a.x) * (b.y - a.y)) := by
    simp only [boundRing, Core.orientArea, Core.orientArea.go]
    ring
  show (if (0 : Int) < Core.orientArea (boundRing a b) then (1 : Int)
    else if Core.orientArea (boundRing a b) < 0 then -1 else 0) = 1
  rw [harea, if_pos (by omega)]

theorem boundRing_ok (a b : Pt Int) (h : geomWF (.bound a b) = true) :
    ringOK (boundRing a b) = true ∧ ringNoDupClose (boundRing a b) = true := by
  simp only [geomWF, Bool.and_eq_true, decide_eq_true_eq] at h
  obtain ⟨⟨⟨ha, hb⟩, hx⟩, hy⟩ := h
  have hori := oriInt_boundRing a b hx hy
  have ha' := ha
  have hb' := hb
  simp only [ptOK, Bool.and_eq_true] at ha' hb'
  constructor
  · simp only [ringOK, Bool.and_eq_true, hori]
    refine ⟨⟨⟨?_, by decide⟩, ?_⟩, by simp [boundRing]⟩
    · rw [closed_iff]; simp [boundRing]
    · simp [boundRing, ptOK, ha'.1, ha'.2, hb'.1, hb'.2]
  · simp only [ringNoDupClose, Bool.not_eq_true', boundRing]
    rw [← Bool.not_eq_true, closed_iff]
    simp only [List.dropLast, List.head?_cons, List.getLast?]
    intro hh
    have := hh.2
    simp only [Option.some.injEq] at this
    have := congrArg Pt.y this
    simp at this
    omega

/-! ### the theorems -/

/-- Round trip of every kind of the quantifier, from any value of the allocation counter. -/
theorem geometry_roundtrip_iter_ori (ori : List (Pt Int) → Int) (g : Geom Int) (h : geomWF g = true)
    (hd : geomNoDupClose g = true) (hori : ∀ r ∈ ringsOf g, ori r = oriInt r) (a : Nat) :
    ∃ t ws, encodeGeometry g = .ok (t, ws) ∧ ws ≠ [] ∧
      (decodeGeometryIter ori t ws a).1 = .ok (normG g) := by
  cases g with
  | point p => exact roundtrip_lines ori _ h trivial a
  | multiPoint ps => exact roundtrip_lines ori _ h trivial a
  | lineString l => exact roundtrip_lines ori _ h trivial a
  | multiLineString ls => exact roundtrip_lines ori _ h trivial a
  | collection gs => simp [geomWF] at h
  | ring r =>
    simp only [geomWF] at h
    simp only [geomNoDupClose] at hd
    obtain ⟨c', ws, he, hne, hdec⟩ := decode_rings ori [r] (by simp) (by simpa using ⟨h, hd⟩)
      (by simpa [ringsOf] using hori) a
    obtain ⟨c1, w1, w2, h1, h2, rfl⟩ := encRings_cons_ok he
    simp only [encRings, Res.ok.injEq, Prod.mk.injEq] at h2
    obtain ⟨rfl, rfl⟩ := h2
    refine ⟨tPolygon, w1, ?_, by simpa using hne, ?_⟩
    · simp [encodeGeometry, h1, Res.map]
    · rw [List.append_nil] at hdec
      rw [hdec]
      simp [grpStep, grpFin, normG]
  | bound p q =>
    obtain ⟨hr, hn⟩ := boundRing_ok p q h
    obtain ⟨c', ws, he, hne, hdec⟩ := decode_rings ori [boundRing p q] (by simp) (by simpa using ⟨hr, hn⟩)
      (by simpa [ringsOf] using hori) a
    refine ⟨tPolygon, ws, ?_, hne, ?_⟩
    · simp [encodeGeometry, he, Res.map]
    · rw [hdec]
      simp [grpStep, grpFin, normG]
  | polygon p =>
    simp only [geomWF] at h
    simp only [geomNoDupClose, List.all_eq_true] at hd
    have hall : ∀ r ∈ p, ringOK r = true ∧ ringNoDupClose r = true := by
      intro r hr
      refine ⟨?_, hd r hr⟩
      cases p with
      | nil => simp at hr
      | cons o hs =>
        simp only [polyOK, Bool.and_eq_true, List.all_eq_true] at h
        rcases List.mem_cons.mp hr with rfl | hr'
        · exact h.1.1
        · exact (h.2 r hr').1
    obtain ⟨c', ws, he, hne, hdec⟩ := decode_rings ori p (polyOK_ne_nil h) hall hori a
    refine ⟨tPolygon, ws, ?_, hne, ?_⟩
    · simp [encodeGeometry, he, Res.map]
    · rw [hdec, grp_poly_first h]
      simp [grpFin, normG]
  | multiPolygon ps =>
    simp only [geomWF, Bool.and_eq_true, List.all_eq_true] at h
    simp only [geomNoDupClose, List.all_eq_true] at hd
    obtain ⟨hnil, hpoly⟩ := h
    cases ps with
    | nil => simp at hnil
    | cons q qs =>
      have hall : ∀ r ∈ (q :: qs).flatten, ringOK r = true ∧ ringNoDupClose r = true := by
        intro r hr
        obtain ⟨p, hp, hrp⟩ := List.mem_flatten.mp hr
        refine ⟨?_, hd p hp r hrp⟩
        have hpo := hpoly p hp
        cases p with
        | nil => simp at hrp
        | cons o hs =>
          simp only [polyOK, Bool.and_eq_true, List.all_eq_true] at hpo
          rcases List.mem_cons.mp hrp with rfl | hr'
          · exact hpo.1.1
          · exact (hpo.2 r hr').1
      have hfne : (q :: qs).flatten ≠ [] := by
        have := polyOK_ne_nil (hpoly q (by simp))
        cases q with
        | nil => exact absurd rfl this
        | cons _ _ => simp
      obtain ⟨c', ws, he, hne, hdec⟩ := decode_rings ori (q :: qs).flatten hfne hall hori a
      refine ⟨tPolygon, ws, ?_, hne, ?_⟩
      · simp only [encodeGeometry, encPolys_eq_flatten, he, Res.map]
      · rw [hdec, grpFin_polys q qs hpoly]

/-- … in particular with the exact orientation. -/
theorem geometry_roundtrip_iter (g : Geom Int) (h : geomWF g = true) (hd : geomNoDupClose g = true) (a : Nat) :
    ∃ t ws, encodeGeometry g = .ok (t, ws) ∧ ws ≠ [] ∧
      (decodeGeometryIter oriInt t ws a).1 = .ok (normG g) :=
  geometry_roundtrip_iter_ori oriInt g h hd (fun _ _ => rfl) a

/-- The geometry round trip for the decoder run with ANY orientation function `ori` (Go: the
    float64 shoelace) that gives the exact sign on the rings of `g`. -/
theorem geometry_roundtrip_ori' (ori : List (Pt Int) → Int) (g : Geom Int) (h : geomWF g = true)
    (hd : geomNoDupClose g = true) (hori : ∀ r ∈ ringsOf g, ori r = oriInt r) :
    ∃ t ws, encodeGeometry g = .ok (t, ws) ∧ (decodeGeometryIter ori t ws 0).1 = .ok (normG g) := by
  obtain ⟨t, ws, he, _, hdec⟩ := geometry_roundtrip_iter_ori ori g h hd hori 0
  exact ⟨t, ws, he, hdec⟩

/-! ### `Closed()` decided by Go on the float64 points (`encRingG`, `reopen`) -/

theorem encRing_eq_encRingG' (c : Cur) (r : List (Pt Int)) : encRing c r = encRingG (closed r) c r := by
  cases r <;> rfl

theorem closed_reopen {r : List (Pt Int)} (h : closed r = true) : closed (reopen r) = true := by
  obtain ⟨p, rest, rfl, hne, _, _⟩ := closed_cons h
  rw [closed_iff] at h ⊢
  refine ⟨by simp only [reopen, List.length_append, List.length_singleton]; omega, ?_⟩
  show (p :: rest ++ [p]).head? = (p :: rest ++ [p]).getLast?
  rw [List.getLast?_append]
  simp

/-- Float-open but truncation-closed: the command stream is that of the truncated ring with its
    first vertex appended once more. -/
theorem encRingG_false_eq_reopen' (c : Cur) {r : List (Pt Int)} (h : closed r = true) :
    encRingG false c r = encRing c (reopen r) := by
  have hcr := closed_reopen h
  obtain ⟨p, rest, rfl, hne, _, _⟩ := closed_cons h
  have hdl : (rest ++ [p]).dropLast = rest := by simp
  simp only [reopen, List.cons_append] at hcr ⊢
  simp only [encRing, encRingG, hcr, if_true, hdl, Bool.false_eq_true, if_false]

theorem geometry_roundtrip_partial' (g : Geom Int) (h : geomWF g = true) (hd : geomNoDupClose g = true) :
    geometryRT g = .ok (normG g) := by
  obtain ⟨t, ws, he, _, hdec⟩ := geometry_roundtrip_iter g h hd 0
  simp only [geometryRT, he, decodeGeometry, hdec]

/-- Number of vertices of the first ring of a decoded polygon (0 for anything else). -/
def firstRingLen : R (Geom Int) → Nat
  | .ok (.polygon (r :: _)) => r.length
  | _ => 0

/-- A ring of the quantifier whose closing vertex is doubled does not come back. -/
theorem ring_reclose_witness' : ¬ geometry_roundtrip_full := by
  intro hfull
  have h := hfull (.ring [⟨0, 0⟩, ⟨5, 0⟩, ⟨0, 5⟩, ⟨0, 0⟩, ⟨0, 0⟩]) (by decide)
  have h4 : firstRingLen (geometryRT (.ring [⟨0, 0⟩, ⟨5, 0⟩, ⟨0, 5⟩, ⟨0, 0⟩, ⟨0, 0⟩])) = 4 := by decide
  rw [h] at h4
  simp [firstRingLen, normG] at h4

end Orb.MVT
