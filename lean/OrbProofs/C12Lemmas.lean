/-
  Helper lemmas for C12, split by algorithm.  The primed statements are re-exported by OrbProofs/C12.lean.
-/
import OrbProofs.C12Basic
import OrbProofs.C12Dist
import OrbProofs.C12DP
import OrbProofs.C12Radial
import OrbProofs.C12VisHeap
import OrbProofs.C12Vis
import OrbProofs.C12Wrap
import OrbProofs.C12Entry
