/-
  C14 lemmas, part 3: the DDA of line() over an ordered field with floor (exact arithmetic).
  Statements with a prime are re-exported by OrbProofs/C14.lean.
-/
import Orb.TileCover
import OrbProofs.C13Lemmas
import Mathlib.Algebra.Order.Floor.Ring
import Mathlib.Algebra.Order.Field.Basic
import Mathlib.Tactic

namespace Orb.TileCover
open Orb Orb.Tile

/-- The float operations over an ordered field with floor: exact `floor`, `abs`, and `uint32(·)` as the
    natural-number floor (no wrap: the theorems that use it assume non-negative coordinates); the west
    edge of a column is `westEdgeOf` at the cast `ℕ → K`. -/
def opsK (K : Type) [Field K] [LinearOrder K] [FloorRing K] : Ops K :=
  ⟨fun x => ((⌊x⌋ : ℤ) : K), fun x => |x|, fun x => ⌊x⌋.toNat, westEdgeOf (fun n => (n : K))⟩

section dda
set_option linter.unusedSectionVars false
variable {K : Type} [Field K] [LinearOrder K] [IsStrictOrderedRing K] [FloorRing K]

/-! #### one axis of the DDA -/

/-- The invariant of one axis: `a`, `b` are the start/stop coordinates, `z` the current cell, `tM` the
    current `tMax`, `sg` the step and `td` the `tMax` increment. -/
def AxInv (a b : K) (z : ℤ) (tM : Option K) (sg td : K) : Prop :=
  (a < b ∧ tM = some (((z:K) + 1 - a)/(b - a)) ∧ sg = 1 ∧ td = 1/(b-a) ∧ (z:K) < b ∧ a < (z:K) + 1) ∨
  (b < a ∧ tM = some ((a - (z:K))/(a - b)) ∧ sg = -1 ∧ td = 1/(a-b) ∧ b < (z:K) + 1 ∧ (z:K) ≤ a) ∨
  (a = b ∧ tM = none ∧ (z:K) ≤ b ∧ b < (z:K) + 1)

/-- initial step sign -/
def sg0 (a b : K) : K := if 0 < b - a then 1 else -1
/-- initial `tMax` -/
def tM0 (a b : K) : Option K :=
  if !(b - a == 0) then some |(((if 0 < b - a then 1 else 0) + ((⌊a⌋ : ℤ) : K)) - a) / (b - a)| else none
/-- the `tMax` increment -/
def td0 (a b : K) : K := |sg0 a b / (b - a)|

theorem segment_eq (zoom fuel : Nat) (s : LState K) (a b : Pt K) :
    segment (opsK K) zoom fuel s a b =
      if (b.y - a.y == 0 && b.x - a.x == 0) then some s else
        walk (opsK K) zoom (sg0 a.x b.x) (sg0 a.y b.y) (td0 a.x b.x) (td0 a.y b.y) fuel
          (tM0 a.x b.x) (tM0 a.y b.y)
          (if !(((⌊a.x⌋ : ℤ) : K) == s.prevX) || !(((⌊a.y⌋ : ℤ) : K) == s.prevY) then
            LState.emit (opsK K) zoom { s with x := ((⌊a.x⌋ : ℤ) : K), y := ((⌊a.y⌋ : ℤ) : K) }
           else { s with x := ((⌊a.x⌋ : ℤ) : K), y := ((⌊a.y⌋ : ℤ) : K) }) := rfl

theorem ax_init (a b : K) : AxInv a b ⌊a⌋ (tM0 a b) (sg0 a b) (td0 a b) := by
  have hfl : ((⌊a⌋ : ℤ) : K) ≤ a := Int.floor_le a
  have hfl' : a < ((⌊a⌋ : ℤ) : K) + 1 := Int.lt_floor_add_one a
  rcases lt_trichotomy a b with hlt | heq | hgt
  · left
    have hpos : 0 < b - a := sub_pos.mpr hlt
    have hne : b - a ≠ 0 := ne_of_gt hpos
    refine ⟨hlt, ?_, ?_, ?_, lt_of_le_of_lt hfl hlt, hfl'⟩
    · have : 0 ≤ ((1 : K) + ((⌊a⌋ : ℤ) : K) - a) / (b - a) :=
        div_nonneg (by linarith) hpos.le
      simp only [tM0, hpos, if_true, abs_of_nonneg this]
      simp [hne]
      ring
    · simp [sg0, hpos]
    · have : 0 ≤ (1 : K) / (b - a) := div_nonneg zero_le_one hpos.le
      simp only [td0, sg0, hpos, if_true, abs_of_nonneg this]
  · right; right
    subst heq
    refine ⟨rfl, ?_, hfl, hfl'⟩
    simp [tM0]
  · right; left
    have hneg : b - a < 0 := sub_neg.mpr hgt
    have hnpos : ¬ (0 < b - a) := not_lt.mpr hneg.le
    have hne : b - a ≠ 0 := ne_of_lt hneg
    have hpos : 0 < a - b := sub_pos.mpr hgt
    refine ⟨hgt, ?_, ?_, ?_, lt_trans hgt hfl', hfl⟩
    · have : ((0 : K) + ((⌊a⌋ : ℤ) : K) - a) / (b - a) = (a - ((⌊a⌋ : ℤ) : K)) / (a - b) := by
        rw [← neg_div_neg_eq]; congr 1 <;> ring
      have h2 : 0 ≤ (a - ((⌊a⌋ : ℤ) : K)) / (a - b) := div_nonneg (by linarith) hpos.le
      simp only [tM0, hnpos, if_false, this, abs_of_nonneg h2]
      simp [hne]
    · simp [sg0, hnpos]
    · have : (-1 : K) / (b - a) = 1 / (a - b) := by
        rw [← neg_div_neg_eq]; congr 1 <;> ring
      have h2 : 0 ≤ (1 : K) / (a - b) := div_nonneg zero_le_one hpos.le
      simp only [td0, sg0, hnpos, if_false, this, abs_of_nonneg h2]

theorem ax_step {a b : K} {z : ℤ} {tM : Option K} {sg td : K} (h : AxInv a b z tM sg td)
    (hlt : ltOne tM = true) :
    ∃ z' : ℤ, (z:K) + sg = (z':K) ∧ AxInv a b z' (tM.map (· + td)) sg td ∧
      (z' = z + 1 ∨ z' = z - 1) ∧ (⌊b⌋ - z').natAbs + 1 = (⌊b⌋ - z).natAbs := by
  rcases h with ⟨hab, rfl, rfl, rfl, h1, h2⟩ | ⟨hab, rfl, rfl, rfl, h1, h2⟩ | ⟨_, rfl, _, _⟩
  · have hpos : 0 < b - a := sub_pos.mpr hab
    simp only [ltOne, decide_eq_true_eq] at hlt
    rw [div_lt_one hpos] at hlt
    have hzb : (z:K) + 1 < b := by linarith
    have hfloor : z + 1 ≤ ⌊b⌋ := Int.le_floor.mpr (by push_cast; exact hzb.le)
    refine ⟨z + 1, by push_cast; rfl, ?_, Or.inl rfl, by omega⟩
    left
    refine ⟨hab, ?_, rfl, rfl, by push_cast; exact hzb, by push_cast; linarith⟩
    simp only [Option.map_some]
    congr 1
    push_cast
    ring
  · have hpos : 0 < a - b := sub_pos.mpr hab
    simp only [ltOne, decide_eq_true_eq] at hlt
    rw [div_lt_one hpos] at hlt
    have hzb : b < (z:K) := by linarith
    have hfloor : ⌊b⌋ < z := Int.floor_lt.mpr hzb
    refine ⟨z - 1, by push_cast; ring, ?_, Or.inr rfl, by omega⟩
    right; left
    refine ⟨hab, ?_, rfl, rfl, by push_cast; linarith, by push_cast; linarith⟩
    simp only [Option.map_some]
    congr 1
    push_cast
    ring
  · simp [ltOne] at hlt

theorem ax_exit {a b : K} {z : ℤ} {tM : Option K} {sg td : K} (h : AxInv a b z tM sg td)
    (hlt : ltOne tM = false) : (z:K) ≤ b ∧ b ≤ (z:K) + 1 := by
  rcases h with ⟨hab, rfl, rfl, rfl, h1, h2⟩ | ⟨hab, rfl, rfl, rfl, h1, h2⟩ | ⟨_, rfl, h1, h2⟩
  · have hpos : 0 < b - a := sub_pos.mpr hab
    simp only [ltOne, decide_eq_false_iff_not, not_lt] at hlt
    rw [one_le_div hpos] at hlt
    exact ⟨h1.le, by linarith⟩
  · have hpos : 0 < a - b := sub_pos.mpr hab
    simp only [ltOne, decide_eq_false_iff_not, not_lt] at hlt
    rw [one_le_div hpos] at hlt
    exact ⟨by linarith, h1.le⟩
  · exact ⟨h1, h2.le⟩

theorem ax_nonneg {a b : K} {z : ℤ} {tM : Option K} {sg td : K} (h : AxInv a b z tM sg td)
    (ha : 0 ≤ a) (hb : 0 ≤ b) : 0 ≤ z := by
  have key : (0:K) < (z:K) + 1 := by
    rcases h with ⟨_, _, _, _, _, h2⟩ | ⟨_, _, _, _, h1, _⟩ | ⟨_, _, _, h2⟩
    · exact lt_of_le_of_lt ha h2
    · exact lt_of_le_of_lt hb h1
    · exact lt_of_le_of_lt hb h2
  have : ((0:ℤ):K) < ((z + 1 : ℤ) : K) := by push_cast; exact key
  have := Int.cast_lt.mp this
  omega

theorem ltOne_of_ltInf {tX tY : Option K} (h : (ltOne tX || ltOne tY) = true)
    (h2 : ltInf tX tY = true) : ltOne tX = true := by
  cases tX with
  | none => simp [ltInf] at h2
  | some x =>
    cases tY with
    | none => simpa [ltOne] using h
    | some y =>
      simp only [ltOne, ltInf, Bool.or_eq_true, decide_eq_true_eq] at *
      rcases h with h | h
      · exact h
      · exact lt_trans h2 h

theorem ltOne_of_not_ltInf {tX tY : Option K} (h : (ltOne tX || ltOne tY) = true)
    (h2 : ¬ ltInf tX tY = true) : ltOne tY = true := by
  cases tX with
  | none => simpa [ltOne] using h
  | some x =>
    cases tY with
    | none => simp [ltInf] at h2
    | some y =>
      simp only [ltOne, ltInf, Bool.or_eq_true, decide_eq_true_eq, not_lt] at *
      rcases h with h | h
      · exact lt_of_le_of_lt h2 h
      · exact h

/-! #### the loop -/

theorem emit_x (zoom : Nat) (s : LState K) : (LState.emit (opsK K) zoom s).x = s.x := rfl
theorem emit_y (zoom : Nat) (s : LState K) : (LState.emit (opsK K) zoom s).y = s.y := rfl
theorem emit_set (zoom : Nat) (s : LState K) :
    (LState.emit (opsK K) zoom s).set = ⟨⌊s.x⌋.toNat, ⌊s.y⌋.toNat, zoom⟩ :: s.set := rfl

theorem walk_term (zoom : Nat) (ax bx ay by_ sx sy tdx tdy : K) :
    ∀ (fuel : Nat) (tMX tMY : Option K) (s : LState K) (z w : ℤ),
      AxInv ax bx z tMX sx tdx → AxInv ay by_ w tMY sy tdy → s.x = z → s.y = w →
      (⌊bx⌋ - z).natAbs + (⌊by_⌋ - w).natAbs ≤ fuel →
      (walk (opsK K) zoom sx sy tdx tdy fuel tMX tMY s).isSome = true := by
  intro fuel
  induction fuel with
  | zero =>
    intro tMX tMY s z w hx hy hsx hsy hm
    by_cases hc : (ltOne tMX || ltOne tMY) = true
    · exfalso
      by_cases hl : ltInf tMX tMY = true
      · obtain ⟨z', _, _, _, hd⟩ := ax_step hx (ltOne_of_ltInf hc hl)
        omega
      · obtain ⟨w', _, _, _, hd⟩ := ax_step hy (ltOne_of_not_ltInf hc hl)
        omega
    · simp [walk, hc]
  | succ n ih =>
    intro tMX tMY s z w hx hy hsx hsy hm
    by_cases hc : (ltOne tMX || ltOne tMY) = true
    · by_cases hl : ltInf tMX tMY = true
      · obtain ⟨z', hz', hinv, _, hd⟩ := ax_step hx (ltOne_of_ltInf hc hl)
        simp only [walk, hc, hl, if_true]
        refine ih _ _ _ z' w hinv hy ?_ ?_ (by omega)
        · rw [emit_x]; show s.x + sx = _; rw [hsx, hz']
        · rw [emit_y]; exact hsy
      · obtain ⟨w', hw', hinv, _, hd⟩ := ax_step hy (ltOne_of_not_ltInf hc hl)
        simp only [walk, hc, hl, if_true]
        refine ih _ _ _ z w' hx hinv ?_ ?_ (by omega)
        · rw [emit_x]; exact hsx
        · rw [emit_y]; show s.y + sy = _; rw [hsy, hw']
    · simp [walk, hc]

theorem natCast_toNat {z : ℤ} (hz : 0 ≤ z) : ((z.toNat : ℕ) : K) = (z : K) := by
  rw [← Int.cast_natCast, Int.toNat_of_nonneg hz]

theorem walk_conn (zoom : Nat) (ax bx ay by_ sx sy tdx tdy : K)
    (hax : 0 ≤ ax) (hbx : 0 ≤ bx) (hay : 0 ≤ ay) (hby : 0 ≤ by_) (s' : LState K) :
    ∀ (fuel : Nat) (tMX tMY : Option K) (s : LState K) (z w : ℤ),
      AxInv ax bx z tMX sx tdx → AxInv ay by_ w tMY sy tdy → s.x = z → s.y = w →
      walk (opsK K) zoom sx sy tdx tdy fuel tMX tMY s = some s' →
      ∃ cells : List Tile, s'.set = cells.reverse ++ s.set ∧
        List.IsChain Adj4 (⟨z.toNat, w.toNat, zoom⟩ :: cells) ∧
        ∃ c, (⟨z.toNat, w.toNat, zoom⟩ :: cells).getLast? = some c ∧
          (c.x : K) ≤ bx ∧ bx ≤ (c.x : K) + 1 ∧ (c.y : K) ≤ by_ ∧ by_ ≤ (c.y : K) + 1 := by
  intro fuel
  have hexit : ∀ (tMX tMY : Option K) (s : LState K) (z w : ℤ),
      AxInv ax bx z tMX sx tdx → AxInv ay by_ w tMY sy tdy →
      ¬ (ltOne tMX || ltOne tMY) = true → s = s' →
      ∃ cells : List Tile, s'.set = cells.reverse ++ s.set ∧
        List.IsChain Adj4 (⟨z.toNat, w.toNat, zoom⟩ :: cells) ∧
        ∃ c, (⟨z.toNat, w.toNat, zoom⟩ :: cells).getLast? = some c ∧
          (c.x : K) ≤ bx ∧ bx ≤ (c.x : K) + 1 ∧ (c.y : K) ≤ by_ ∧ by_ ≤ (c.y : K) + 1 := by
    intro tMX tMY s z w hx hy hc hs
    simp only [Bool.or_eq_true, not_or, Bool.not_eq_true] at hc
    obtain ⟨h1, h2⟩ := ax_exit hx hc.1
    obtain ⟨h3, h4⟩ := ax_exit hy hc.2
    have hz := ax_nonneg hx hax hbx
    have hw := ax_nonneg hy hay hby
    refine ⟨[], by simp [hs], List.IsChain.singleton _, _, rfl, ?_⟩
    show ((z.toNat : ℕ) : K) ≤ bx ∧ bx ≤ ((z.toNat : ℕ) : K) + 1 ∧
      ((w.toNat : ℕ) : K) ≤ by_ ∧ by_ ≤ ((w.toNat : ℕ) : K) + 1
    rw [natCast_toNat hz, natCast_toNat hw]
    exact ⟨h1, h2, h3, h4⟩
  induction fuel with
  | zero =>
    intro tMX tMY s z w hx hy hsx hsy hwalk
    by_cases hc : (ltOne tMX || ltOne tMY) = true
    · simp [walk, hc] at hwalk
    · simp only [walk, hc] at hwalk
      exact hexit tMX tMY s z w hx hy hc (by simpa using hwalk)
  | succ n ih =>
    intro tMX tMY s z w hx hy hsx hsy hwalk
    have hz := ax_nonneg hx hax hbx
    have hw := ax_nonneg hy hay hby
    by_cases hc : (ltOne tMX || ltOne tMY) = true
    · by_cases hl : ltInf tMX tMY = true
      · obtain ⟨z', hz', hinv, hstep, _⟩ := ax_step hx (ltOne_of_ltInf hc hl)
        have hz'0 := ax_nonneg hinv hax hbx
        simp only [walk, hc, hl, if_true] at hwalk
        have hsx' : (LState.emit (opsK K) zoom { s with x := s.x + sx }).x = (z' : K) := by
          rw [emit_x]; show s.x + sx = _; rw [hsx, hz']
        have hsy' : (LState.emit (opsK K) zoom { s with x := s.x + sx }).y = (w : K) := by
          rw [emit_y]; exact hsy
        obtain ⟨cells, hset, hchain, c, hlast, hc4⟩ := ih _ _ _ z' w hinv hy hsx' hsy' hwalk
        have hemit : (LState.emit (opsK K) zoom { s with x := s.x + sx }).set =
            ⟨z'.toNat, w.toNat, zoom⟩ :: s.set := by
          rw [emit_set]
          show (⟨⌊s.x + sx⌋.toNat, ⌊s.y⌋.toNat, zoom⟩ : Tile) :: s.set = _
          rw [hsx, hsy, hz', Int.floor_intCast, Int.floor_intCast]
        refine ⟨⟨z'.toNat, w.toNat, zoom⟩ :: cells, ?_, ?_, c, ?_, hc4⟩
        · rw [hset, hemit]; simp
        · refine List.IsChain.cons_cons ?_ hchain
          refine ⟨rfl, Or.inr ⟨rfl, ?_⟩⟩
          show z.toNat + 1 = z'.toNat ∨ z'.toNat + 1 = z.toNat
          omega
        · rw [List.getLast?_cons_cons]; exact hlast
      · obtain ⟨w', hw', hinv, hstep, _⟩ := ax_step hy (ltOne_of_not_ltInf hc hl)
        have hw'0 := ax_nonneg hinv hay hby
        simp only [walk, hc, hl, if_true] at hwalk
        have hsx' : (LState.emit (opsK K) zoom { s with y := s.y + sy }).x = (z : K) := by
          rw [emit_x]; exact hsx
        have hsy' : (LState.emit (opsK K) zoom { s with y := s.y + sy }).y = (w' : K) := by
          rw [emit_y]; show s.y + sy = _; rw [hsy, hw']
        obtain ⟨cells, hset, hchain, c, hlast, hc4⟩ := ih _ _ _ z w' hx hinv hsx' hsy' hwalk
        have hemit : (LState.emit (opsK K) zoom { s with y := s.y + sy }).set =
            ⟨z.toNat, w'.toNat, zoom⟩ :: s.set := by
          rw [emit_set]
          show (⟨⌊s.x⌋.toNat, ⌊s.y + sy⌋.toNat, zoom⟩ : Tile) :: s.set = _
          rw [hsx, hsy, hw', Int.floor_intCast, Int.floor_intCast]
        refine ⟨⟨z.toNat, w'.toNat, zoom⟩ :: cells, ?_, ?_, c, ?_, hc4⟩
        · rw [hset, hemit]; simp
        · refine List.IsChain.cons_cons ?_ hchain
          refine ⟨rfl, Or.inl ⟨rfl, ?_⟩⟩
          show w.toNat + 1 = w'.toNat ∨ w'.toNat + 1 = w.toNat
          omega
        · rw [List.getLast?_cons_cons]; exact hlast
    · simp only [walk, hc] at hwalk
      exact hexit tMX tMY s z w hx hy hc (by simpa using hwalk)

theorem dda_connected' (zoom fuel : Nat) (a b : Pt K) (ha : 0 ≤ a.x ∧ 0 ≤ a.y) (hb : 0 ≤ b.x ∧ 0 ≤ b.y)
    (hab : a ≠ b) (s : LState K)
    (h : segment (opsK K) zoom fuel ⟨[], none, -1, -1, 0, 0⟩ a b = some s) :
    ∃ cells : List Tile, s.set = cells.reverse ∧
      cells.head? = some ⟨⌊a.x⌋.toNat, ⌊a.y⌋.toNat, zoom⟩ ∧
      List.IsChain Adj4 cells ∧
      ∃ c, cells.getLast? = some c ∧ (c.x : K) ≤ b.x ∧ b.x ≤ (c.x : K) + 1 ∧ (c.y : K) ≤ b.y ∧ b.y ≤ (c.y : K) + 1 := by
  rw [segment_eq] at h
  have hne : ¬ (b.y - a.y == 0 && b.x - a.x == 0) = true := by
    intro hc
    simp only [Bool.and_eq_true, beq_iff_eq, sub_eq_zero] at hc
    apply hab
    cases a; cases b; simp_all
  have hfx : (0 : ℤ) ≤ ⌊a.x⌋ := Int.floor_nonneg.mpr ha.1
  have hprev : (!(((⌊a.x⌋ : ℤ) : K) == (-1 : K)) || !(((⌊a.y⌋ : ℤ) : K) == (-1 : K))) = true := by
    have : ((⌊a.x⌋ : ℤ) : K) ≠ -1 := by
      intro he
      have : ((⌊a.x⌋ : ℤ) : K) = ((-1 : ℤ) : K) := by rw [he]; simp
      have := Int.cast_injective this
      omega
    simp [this]
  simp only [hne, hprev, if_true] at h
  obtain ⟨cells, hset, hchain, c, hlast, hc4⟩ :=
    walk_conn zoom a.x b.x a.y b.y _ _ _ _ ha.1 hb.1 ha.2 hb.2 s fuel _ _ _ ⌊a.x⌋ ⌊a.y⌋
      (ax_init a.x b.x) (ax_init a.y b.y) (by rw [emit_x]) (by rw [emit_y]) h
  refine ⟨⟨⌊a.x⌋.toNat, ⌊a.y⌋.toNat, zoom⟩ :: cells, ?_, rfl, hchain, c, hlast, hc4⟩
  rw [hset, emit_set]
  simp

theorem dda_terminates' (zoom fuel : Nat) (a b : Pt K) (s : LState K)
    (hf : (⌊b.x⌋ - ⌊a.x⌋).natAbs + (⌊b.y⌋ - ⌊a.y⌋).natAbs + 2 ≤ fuel) :
    (segment (opsK K) zoom fuel s a b).isSome = true := by
  rw [segment_eq]
  split
  · rfl
  · split
    · exact walk_term zoom a.x b.x a.y b.y _ _ _ _ fuel _ _ _ ⌊a.x⌋ ⌊a.y⌋
        (ax_init a.x b.x) (ax_init a.y b.y) (by rw [emit_x]) (by rw [emit_y]) (by omega)
    · exact walk_term zoom a.x b.x a.y b.y _ _ _ _ fuel _ _ _ ⌊a.x⌋ ⌊a.y⌋
        (ax_init a.x b.x) (ax_init a.y b.y) rfl rfl (by omega)

end dda
end Orb.TileCover
