/-
  C15 — translation tie for project/helpers.go: `Point`, `MultiPoint`, `LineString`, `MultiLineString`,
  `Ring`, `Polygon`, `MultiPolygon`, `Bound`.
  `Generated/ProjectGo.lean` is REGENERATED from /repo on every run by
  harness/cmd/factgen/translate_float.go.  The in-place loops `for i := range mp { mp[i] = proj(mp[i]) }`
  are translated as folds over the indices that replace the i-th element (`List.set`);
  `Orb.LoopForms.foldl_set_map` turns them into `List.map`.  An `orb.Projection` is translated as a PURE
  function `f`; the model `Orb.Project` threads a state through the calls of `proj` (a Go closure), and the
  theorems below tie the translation to the model at the stateless projection `fun p s => (f p, s)`:
  every vertex is transformed exactly once, by `f`, and nothing else happens.  A change of helpers.go
  outside the translated subset (goroutines, chunking, sub-slices) leaves the function unresolved and
  breaks `all_translated_ProjectGo`.
-/
import Orb.Project
import Orb.LoopForms
import Generated.ProjectGo
import Generated.MercatorGo
import Generated.MvtGo

namespace Orb.C15Tie
open Orb Orb.Core Orb.Project Orb.LoopForms

set_option linter.unusedSectionVars false

variable {α : Type} [Add α] [Sub α] [Mul α] [Div α] [Neg α] [LT α] [LE α] [DecidableLT α] [DecidableLE α]
  [BEq α] [Min α] [Max α] [OfNat α 0] [OfNat α 1] [OfNat α 2] [OfNat α 6] [OfNat α 90] [OfNat α 180] [OfNat α 360] [NatCast α]

/-- a projection without state -/
def pureProj {σ : Type} (f : Pt α → Pt α) : Proj σ α := fun p s => (f p, s)

theorem projPoint_tie (f : Pt α → Pt α) (p : Pt α) : Generated.ProjectGo.projPoint p f = f p := rfl

/-- `for i := range mp { mp[i] = proj(mp[i]) }` transforms every point, in place -/
theorem projMultiPoint_map (f : Pt α → Pt α) (ps : List (Pt α)) :
    Generated.ProjectGo.projMultiPoint ps f = ps.map f :=
  foldl_set_map f ⟨0, 0⟩ ps

theorem projLineString_map (f : Pt α → Pt α) (ps : List (Pt α)) :
    Generated.ProjectGo.projLineString ps f = ps.map f := projMultiPoint_map f ps

theorem projRing_map (f : Pt α → Pt α) (ps : List (Pt α)) :
    Generated.ProjectGo.projRing ps f = ps.map f := projMultiPoint_map f ps

theorem projMultiLineString_map (f : Pt α → Pt α) (ls : List (List (Pt α))) :
    Generated.ProjectGo.projMultiLineString ls f = ls.map (List.map f) := by
  have h := foldl_set_map (fun l => Generated.ProjectGo.projLineString l f) [] ls
  have hf : (fun l => Generated.ProjectGo.projLineString l f) = List.map f := funext (projLineString_map f)
  rw [hf] at h
  exact h

theorem projPolygon_map (f : Pt α → Pt α) (rs : List (List (Pt α))) :
    Generated.ProjectGo.projPolygon rs f = rs.map (List.map f) := by
  have h := foldl_set_map (fun l => Generated.ProjectGo.projRing l f) [] rs
  have hf : (fun l => Generated.ProjectGo.projRing l f) = List.map f := funext (projRing_map f)
  rw [hf] at h
  exact h

theorem projMultiPolygon_map (f : Pt α → Pt α) (ps : List (List (List (Pt α)))) :
    Generated.ProjectGo.projMultiPolygon ps f = ps.map (List.map (List.map f)) := by
  have h := foldl_set_map (fun l => Generated.ProjectGo.projPolygon l f) [] ps
  have hf : (fun l => Generated.ProjectGo.projPolygon l f) = List.map (List.map f) := funext (projPolygon_map f)
  rw [hf] at h
  exact h

/-! the model at a stateless projection -/

theorem ptsM_pure {σ : Type} (f : Pt α → Pt α) (ps : List (Pt α)) (s : σ) :
    ptsM (pureProj f) ps s = (ps.map f, s) := by
  induction ps with
  | nil => rfl
  | cons p t ih =>
    simp only [ptsM, List.map_cons]
    show (f p :: (ptsM (pureProj f) t s).1, (ptsM (pureProj f) t s).2) = _
    rw [ih]

theorem ptssM_pure {σ : Type} (f : Pt α → Pt α) (ls : List (List (Pt α))) (s : σ) :
    ptssM (pureProj f) ls s = (ls.map (List.map f), s) := by
  induction ls with
  | nil => rfl
  | cons l t ih => simp only [ptssM, ptsM_pure, ih, List.map_cons]

theorem ptsssM_pure {σ : Type} (f : Pt α → Pt α) (ps : List (List (List (Pt α)))) (s : σ) :
    ptsssM (pureProj f) ps s = (ps.map (List.map (List.map f)), s) := by
  induction ps with
  | nil => rfl
  | cons l t ih => simp only [ptsssM, ptssM_pure, ih, List.map_cons]

/-- `project.MultiPoint` / `LineString` / `Ring` are the model's `ptsM` -/
theorem projPts_tie {σ : Type} (f : Pt α → Pt α) (ps : List (Pt α)) (s : σ) :
    ptsM (pureProj f) ps s = (Generated.ProjectGo.projMultiPoint ps f, s) ∧
    ptsM (pureProj f) ps s = (Generated.ProjectGo.projLineString ps f, s) ∧
    ptsM (pureProj f) ps s = (Generated.ProjectGo.projRing ps f, s) := by
  rw [ptsM_pure, projMultiPoint_map, projLineString_map, projRing_map]
  exact ⟨rfl, rfl, rfl⟩

/-- `project.MultiLineString` / `Polygon` are the model's `ptssM` -/
theorem projPtss_tie {σ : Type} (f : Pt α → Pt α) (ls : List (List (Pt α))) (s : σ) :
    ptssM (pureProj f) ls s = (Generated.ProjectGo.projMultiLineString ls f, s) ∧
    ptssM (pureProj f) ls s = (Generated.ProjectGo.projPolygon ls f, s) := by
  rw [ptssM_pure, projMultiLineString_map, projPolygon_map]
  exact ⟨rfl, rfl⟩

/-- `project.MultiPolygon` is the model's `ptsssM` -/
theorem projPtsss_tie {σ : Type} (f : Pt α → Pt α) (ps : List (List (List (Pt α)))) (s : σ) :
    ptsssM (pureProj f) ps s = (Generated.ProjectGo.projMultiPolygon ps f, s) := by
  rw [ptsssM_pure, projMultiPolygon_map]

/-- `project.Bound`: `min := proj(b.Min); Bound{min, min}.Extend(proj(b.Max))` -/
theorem projBound_tie (f : Pt α → Pt α) (lo hi : Pt α) :
    Generated.ProjectGo.projBound ⟨lo, hi⟩ f = boundOf (f lo) (f hi) := rfl

/-! ### internal/mercator: `ToPlanar`, `ToGeo`

translated with libm's functions, `math.Pi`, the folded constants `2*math.Pi`, `180.0/math.Pi`, the literal
`0.9999` and `float64(uint64)` as explicit parameters (the fields of the model's record `MFn`); the clamp of
`ToPlanar` is decided on `siny`, and the named results are variables returned by the bare `return`. -/

theorem maxtiles_eq (F : MFn α) (level : Nat) : F.ofNat ((1 <<< level) % 2 ^ 64) = maxTiles F level := by
  rw [maxTiles, Nat.one_shiftLeft]

theorem toPlanar_tie (F : MFn α) (level : Nat) (g : Pt α) :
    Generated.MercatorGo.toPlanar F.sin F.log F.pi F.twoPi F.c9999 F.ofNat g.x g.y level
      = ((toPlanar F level g).x, (toPlanar F level g).y) := by
  unfold Generated.MercatorGo.toPlanar toPlanar
  rw [maxtiles_eq]
  by_cases h1 : F.sin (g.y * F.pi / 180) < -F.c9999
  · simp only [h1, ↓reduceIte]
  · by_cases h2 : F.c9999 < F.sin (g.y * F.pi / 180)
    · simp only [h1, h2, ↓reduceIte]
    · simp only [h1, h2, ↓reduceIte]

theorem toGeo_tie (F : MFn α) (level : Nat) (p : Pt α) :
    Generated.MercatorGo.toGeo F.atan F.exp F.pi F.twoPi F.d180pi F.ofNat p.x p.y level
      = ((toGeo F level p).x, (toGeo F level p).y) := by
  unfold Generated.MercatorGo.toGeo toGeo
  rw [maxtiles_eq]

theorem all_translated_MercatorGo : Generated.MercatorGo.translated = ["toPlanar", "toGeo"] := by
  decide

/-! ### encoding/mvt/projection.go: `isPowerOfTwo`, `newProjection`, `nonPowerOfTwoProjection`

`newProjection` returns a struct of two closures; each is translated as "the field of the result, applied to
`p`" (the statements in front of the `return`, then the closure's body; `return nonPowerOfTwoProjection(…)`
becomes the call of the same field of that function).  uint32 subtraction wraps (`(a + 2^32 - b) % 2^32`),
`uint64(x) << n` is `(x <<< n) % 2^64`, `bits.TrailingZeros32` is an opaque parameter instantiated by the
model's `trailingZeros32`, `math.Floor` is `F.floor`. -/

theorem isPowerOfTwo_tie (n : Nat) (h : n < 2 ^ 32) : Generated.MvtGo.isPowerOfTwo n = isPowerOfTwo n := by
  unfold Generated.MvtGo.isPowerOfTwo isPowerOfTwo
  cases n with
  | zero => simp
  | succ k =>
    have hk : (k + 1 + 2 ^ 32 - 1) % 2 ^ 32 = k := by
      have : k + 1 + 2 ^ 32 - 1 = k + 2 ^ 32 := by omega
      rw [this, Nat.add_mod_right, Nat.mod_eq_of_lt (by omega)]
    rw [hk]
    simp
    by_cases h0 : (k + 1) &&& k = 0 <;> simp [h0]

theorem nonPow2ToTile_tie (F : MFn α) (t : Orb.Tile.Tile) (extent : Nat) (p : Pt α) :
    Generated.MvtGo.nonPow2ToTile F.sin F.log F.floor F.pi F.twoPi F.c9999 F.ofNat t extent p
      = (nonPow2Proj F.floor (toPlanar F t.z) (toGeo F t.z) (F.ofNat t.x) (F.ofNat t.y) (F.ofNat extent)).toTile p := by
  unfold Generated.MvtGo.nonPow2ToTile nonPow2Proj
  simp only [toPlanar_tie]

theorem nonPow2ToWGS84_tie (F : MFn α) (t : Orb.Tile.Tile) (extent : Nat) (p : Pt α) :
    Generated.MvtGo.nonPow2ToWGS84 F.atan F.exp F.pi F.twoPi F.d180pi F.ofNat t extent p
      = (nonPow2Proj F.floor (toPlanar F t.z) (toGeo F t.z) (F.ofNat t.x) (F.ofNat t.y) (F.ofNat extent)).toWGS84 p := by
  unfold Generated.MvtGo.nonPow2ToWGS84 nonPow2Proj
  have h := toGeo_tie F t.z ⟨(p.x + 1 / 2) / F.ofNat extent + F.ofNat t.x, (p.y + 1 / 2) / F.ofNat extent + F.ofNat t.y⟩
  simp only [h]

/-- `newProjection(tile, extent).ToTile`, for an extent that is a uint32 -/
theorem newProjToTile_tie (F : MFn α) (t : Orb.Tile.Tile) (extent : Nat) (he : extent < 2 ^ 32) (p : Pt α) :
    Generated.MvtGo.newProjToTile F.sin F.log F.floor trailingZeros32 F.pi F.twoPi F.c9999 F.ofNat t extent p
      = (newProjection F t.x t.y t.z extent).toTile p := by
  unfold Generated.MvtGo.newProjToTile newProjection
  rw [isPowerOfTwo_tie extent he]
  cases isPowerOfTwo extent with
  | true =>
    simp only [↓reduceIte, pow2Proj, toPlanar_tie, Nat.shiftLeft_eq]
  | false =>
    simp only [Bool.false_eq_true, ↓reduceIte]
    exact nonPow2ToTile_tie F t extent p

/-- `newProjection(tile, extent).ToWGS84` -/
theorem newProjToWGS84_tie (F : MFn α) (t : Orb.Tile.Tile) (extent : Nat) (he : extent < 2 ^ 32) (p : Pt α) :
    Generated.MvtGo.newProjToWGS84 F.atan F.exp trailingZeros32 F.pi F.twoPi F.d180pi F.ofNat t extent p
      = (newProjection F t.x t.y t.z extent).toWGS84 p := by
  unfold Generated.MvtGo.newProjToWGS84 newProjection
  rw [isPowerOfTwo_tie extent he]
  cases isPowerOfTwo extent with
  | true =>
    simp only [↓reduceIte, pow2Proj, Nat.shiftLeft_eq]
    have h := toGeo_tie F (t.z + trailingZeros32 extent)
      ⟨p.x + F.ofNat (t.x * 2 ^ trailingZeros32 extent % 2 ^ 64) + 1 / 2,
       p.y + F.ofNat (t.y * 2 ^ trailingZeros32 extent % 2 ^ 64) + 1 / 2⟩
    simp only [h]
  | false =>
    simp only [Bool.false_eq_true, ↓reduceIte]
    exact nonPow2ToWGS84_tie F t extent p

/-! ### encoding/mvt/layer.go: `Layer.ProjectToTile`, `Layer.ProjectToWGS84`

The methods have a pointer receiver and write `f.Geometry` through the feature pointers.  They are translated
through a VIEW of what they touch: `l.Extent` is a parameter, `l.Features` is the list of the `Geometry` values of
the (distinct) features, `for _, f := range l.Features { f.Geometry = project.Geometry(f.Geometry, p.ToTile) }`
replaces the i-th value, and the result is that list after the method; `p := newProjection(tile, l.Extent)` stands
for the two translated closures, `project.Geometry` on the opaque geometry values is the explicit parameter
`projectGeometry` (instantiated by the model's `geometryVM` at a pure projection), the zero value of the interface
is `gnil` (the nil interface).  Any other use of the receiver (a cached field, a helper method) leaves the method
unresolved. -/

/-- `project.Geometry` on values, with a pure projection -/
def pg (g : GVal α) (f : Pt α → Pt α) : GVal α := (geometryVM (pureP f) g ()).1

theorem layerProjectToTile_tie (F : MFn α) (t : Orb.Tile.Tile) (extent : Nat) (he : extent < 2 ^ 32)
    (feats : List (GVal α)) :
    Generated.MvtGo.layerProjectToTile F.sin F.log F.atan F.exp F.floor trailingZeros32 F.pi F.twoPi F.d180pi F.c9999
        F.ofNat GVal.nilIface pg t extent feats
      = layerProjectToTile F t.x t.y t.z extent feats := by
  have hf : Generated.MvtGo.newProjToTile F.sin F.log F.floor trailingZeros32 F.pi F.twoPi F.c9999 F.ofNat t extent
      = (newProjection F t.x t.y t.z extent).toTile := funext (newProjToTile_tie F t extent he)
  unfold Generated.MvtGo.layerProjectToTile layerProjectToTile
  rw [hf]
  exact foldl_set_map (fun g => pg g (newProjection F t.x t.y t.z extent).toTile) GVal.nilIface feats

theorem layerProjectToWGS84_tie (F : MFn α) (t : Orb.Tile.Tile) (extent : Nat) (he : extent < 2 ^ 32)
    (feats : List (GVal α)) :
    Generated.MvtGo.layerProjectToWGS84 F.sin F.log F.atan F.exp F.floor trailingZeros32 F.pi F.twoPi F.d180pi F.c9999
        F.ofNat GVal.nilIface pg t extent feats
      = layerProjectToWGS84 F t.x t.y t.z extent feats := by
  have hf : Generated.MvtGo.newProjToWGS84 F.atan F.exp trailingZeros32 F.pi F.twoPi F.d180pi F.ofNat t extent
      = (newProjection F t.x t.y t.z extent).toWGS84 := funext (newProjToWGS84_tie F t extent he)
  unfold Generated.MvtGo.layerProjectToWGS84 layerProjectToWGS84
  rw [hf]
  exact foldl_set_map (fun g => pg g (newProjection F t.x t.y t.z extent).toWGS84) GVal.nilIface feats

theorem all_translated_MvtGo : Generated.MvtGo.translated =
    ["isPowerOfTwo", "nonPow2ToTile", "nonPow2ToWGS84", "newProjToTile", "newProjToWGS84", "layerProjectToTile",
     "layerProjectToWGS84"] := by
  decide

/-! ### project/projections.go: the closures `Mercator.ToWGS84`, `WGS84.ToMercator`

the function literals that initialise the package variables (nothing in the package assigns them); the
named constant `earthRadiusPi` is accepted as the model's `rPi` only while it is defined as
`orb.EarthRadius * math.Pi`. -/

theorem mercatorToWGS84_tie (F : MFn α) (p : Pt α) :
    Generated.ProjectGo.mercatorToWGS84 F.R F.atan F.exp F.piHalf F.d180pi F.rPi p = mercatorToWGS84 F p := rfl

theorem wgs84ToMercator_tie (F : MFn α) (g : Pt α) :
    Generated.ProjectGo.wgs84ToMercator F.max F.min F.R F.log F.tan F.pi F.rPi F.rPi180 g = wgs84ToMercator F g := rfl

theorem all_translated_ProjectGo : Generated.ProjectGo.translated =
    ["mercatorToWGS84", "wgs84ToMercator", "projPoint", "projMultiPoint", "projLineString", "projMultiLineString", "projRing", "projPolygon",
     "projMultiPolygon", "projBound"] := by
  decide

end Orb.C15Tie
