/-
  C17 — translation tie for resample/line_string.go `precomputeDistances`.
  `Generated/ResampleGo.lean` is REGENERATED from /repo on every run by
  harness/cmd/factgen/translate_float.go.  The function is translated WITH Go's run-time checks:
  `make([]float64, len(ls)-1)` panics on a line without vertices, the loop
  `for i := 0; i < len(ls)-1; i++ { dists[i] = df(ls[i], ls[i+1]); total += dists[i] }` runs over the
  indices, writes and reads `dists[i]` under explicit bounds checks (`ls[i]`, `ls[i+1]` are in range by
  the loop bound).  `precomputeDistances_tie` proves it equal to the model `Orb.Resample.precompute` on
  every input: the checks never fire, `dists` is `zipWith df ls ls.tail` and `total` its left-to-right sum.
-/
import Orb.Resample
import Orb.LoopForms
import Generated.ResampleGo

namespace Orb.C17Tie
open Orb Orb.Core Orb.LoopForms

set_option linter.unusedSectionVars false

variable {α : Type} [Add α] [Sub α] [Mul α] [Div α] [Neg α] [LT α] [LE α] [DecidableLT α] [DecidableLE α]
  [BEq α] [Min α] [Max α] [OfNat α 0] [OfNat α 1] [OfNat α 2] [OfNat α 6] [NatCast α]

/-- one iteration of the loop, as translated -/
def pdStep (df : Pt α → Pt α → α) (ls : List (Pt α)) :
    List α × α → Nat → Sum (Res Resample.Fail (α × List α)) (List α × α) :=
  fun ((dists, total) : List α × α) (i : Nat) =>
    if i < dists.length then
      let dists : List α := dists.set i (df (ls.getD i ⟨0, 0⟩) (ls.getD (i + 1) ⟨0, 0⟩))
      if i < dists.length then
        let total : α := total + (dists.getD i 0)
        Sum.inr (dists, total)
      else
        Sum.inl (.panic ("index out of range [" ++ toString i ++ "] with length " ++ toString dists.length))
    else
      Sum.inl (.panic ("index out of range [" ++ toString i ++ "] with length " ++ toString dists.length))

/-- the iteration at the first unwritten slot: both checks pass -/
theorem pdStep_at (df : Pt α → Pt α → α) (done : List (Pt α)) (p q : Pt α) (r : List (Pt α))
    (pre : List α) (x : α) (post : List α) (tot : α) (hlen : done.length = pre.length) :
    pdStep df (done ++ p :: q :: r) (pre ++ x :: post, tot) pre.length
      = Sum.inr (pre ++ df p q :: post, tot + df p q) := by
  have h1 : pre.length < (pre ++ x :: post).length := by simp
  have hp : (done ++ p :: q :: r).getD pre.length ⟨0, 0⟩ = p := by
    rw [← hlen]; exact getD_append_cons_length done p (q :: r) _
  have hq : (done ++ p :: q :: r).getD (pre.length + 1) ⟨0, 0⟩ = q := by
    have := getD_append_cons_length (done ++ [p]) q r (⟨0, 0⟩ : Pt α)
    simp only [List.length_append, List.length_cons, List.length_nil, hlen, List.append_assoc, List.cons_append,
      List.nil_append, Nat.zero_add] at this
    exact this
  simp only [pdStep, h1, ↓reduceIte, hp, hq, set_append_cons_length, getD_append_cons_length]
  have h2 : pre.length < (pre ++ df p q :: post).length := by simp
  simp only [h2, ↓reduceIte]

/-- the loop, from any point on -/
theorem pdLoop (df : Pt α → Pt α → α) (rest : List (Pt α)) (done : List (Pt α)) (p : Pt α) (pre : List α) (tot : α)
    (hlen : done.length = pre.length) :
    foldlRet (pdStep df (done ++ p :: rest)) (List.range' pre.length rest.length)
        (pre ++ List.replicate rest.length 0, tot)
      = Sum.inr (pre ++ List.zipWith df (p :: rest) rest,
          (List.zipWith df (p :: rest) rest).foldl (· + ·) tot) := by
  induction rest generalizing done p pre tot with
  | nil => simp
  | cons q r ih =>
    rw [List.length_cons, List.range'_succ, List.replicate_succ, foldlRet_cons, pdStep_at df done p q r pre 0 _ tot hlen]
    have h := ih (done ++ [p]) q (pre ++ [df p q]) (tot + df p q) (by simp [hlen])
    simp only [List.append_assoc, List.cons_append, List.nil_append, List.length_append, List.length_cons,
      List.length_nil] at h
    simp only [List.zipWith_cons_cons, List.foldl_cons]
    exact h

/-- `precomputeDistances` -/
theorem precomputeDistances_tie (df : Pt α → Pt α → α) (ls : List (Pt α)) :
    Generated.ResampleGo.precomputeDistances ls df = Resample.precompute df ls := by
  cases ls with
  | nil => rfl
  | cons p rest =>
    have h := pdLoop df rest [] p [] 0 rfl
    simp only [List.length_nil, List.nil_append] at h
    show (match foldlRet (pdStep df (p :: rest)) (List.range' 0 ((p :: rest).length - 1))
        (List.replicate ((p :: rest).length - 1) 0, 0) with
      | .inl r => r
      | .inr (dists, total) => Res.ok (total, dists)) = _
    simp only [List.length_cons, Nat.add_sub_cancel]
    rw [h]
    rfl

theorem all_translated_ResampleGo : Generated.ResampleGo.translated = ["precomputeDistances"] := by
  decide

end Orb.C17Tie
