import OrbProofs.C13
